#!/bin/bash
# usage: retry_misses.sh  -- every change the thin sweep (4 processes x 30 s) missed is tried again with the check's
# own defaults (all cores, the registered quick budget); RESULTS.txt then says so in its line
out=/verif/seeded/RESULTS.txt
grep -v "rc=1" $out | while read id chk rest; do
  wt=$(mktemp -d /tmp/rm.XXXXXX); rmdir $wt
  git -C /repo worktree add -q --detach $wt HEAD || continue
  git -C $wt apply /verif/seeded/$id/patch.diff
  res=$(cd /verif && VERIF_REPO=$wt VERIF_SHRINK_S=8 VERIF_EVIDENCE_DIR=$wt/.evidence timeout 1800 ./check $chk 2>&1)
  rc=$?
  cls=$(echo "$res" | grep -E "^  class:" | sed 's/  class: //' | tr '\n' ' ')
  git -C /repo worktree remove --force $wt
  echo "$id $chk rc=$rc(default-budget) $cls"
  if [ $rc -eq 1 ]; then
    /venv/bin/python - "$out" "$id" "$chk" "$cls" <<'PY'
import sys
out, id_, chk, cls = sys.argv[1:5]
lines = open(out).read().splitlines()
lines = [("%s %s rc=1 %s [default-budget]" % (id_, chk, cls)).rstrip() if l.split()[:1] == [id_] else l for l in lines]
open(out, "w").write("\n".join(lines) + "\n")
PY
  fi
done
