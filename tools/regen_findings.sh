#!/bin/bash
# usage: regen_findings.sh   -- runs every quick check against the pinned tree (worktree of a583893, all defects present)
# and keeps the replay files the current machinery writes there as /verif/findings/*.json; then the race left by fix
# 76a4e73 against a worktree of e03734f (the commit before fix 359720f).
set -u
cd /verif
pin=/tmp/wt/pinned
[ -d $pin ] || git -C /repo worktree add -q --detach $pin a583893
mid=/tmp/wt/e03734f
[ -d $mid ] || git -C /repo worktree add -q --detach $mid e03734f
mkdir -p /tmp/regen_ev
find replays -name '*.json' -delete 2>/dev/null
for c in C01 C02 C04 C09 C10 C11 C12 C13 C16 C17 C18 C19; do
  VERIF_REPO=$pin VERIF_EVIDENCE_DIR=/tmp/regen_ev VERIF_JOBS=${VERIF_JOBS:-12} VERIF_BUDGET_S=${VERIF_BUDGET_S:-40} VERIF_SHRINK_S=30 ./check $c > /tmp/regen_ev/$c.out 2>&1
  echo "$c rc=$? $(grep -c '^VIOLATION' /tmp/regen_ev/$c.out) violation classes"
done
mkdir -p findings.new
cp replays/*.json findings.new/ 2>/dev/null
find replays -name '*.json' -delete 2>/dev/null
VERIF_REPO=$mid VERIF_EVIDENCE_DIR=/tmp/regen_ev VERIF_JOBS=${VERIF_JOBS:-12} VERIF_BUDGET_S=60 VERIF_SHRINK_S=30 ./check C12 > /tmp/regen_ev/C12mid.out 2>&1
for f in replays/*.json; do
  [ -f "$f" ] || continue
  if grep -q '"C12.thread-crash:ValueError"' $f; then cp $f findings.new/C12-close-before-serve-race-after-76a4e73.json; fi
done
find replays -name '*.json' -delete 2>/dev/null
ls findings.new | wc -l
