#!/bin/bash
# usage: try_seeded.sh <seeded id> <check id> [budget_s]  -- runs a check against a scratch copy of /repo with the seeded change
id=$1; chk=$2; budget=${3:-30}
wt=$(mktemp -d /tmp/ts.XXXXXX); rmdir $wt
git -C /repo worktree add -q --detach $wt HEAD || exit 2
git -C $wt apply /verif/seeded/$id/patch.diff || { echo "$id $chk APPLY-FAILED"; git -C /repo worktree remove --force $wt; exit 2; }
out=$(cd /verif && VERIF_REPO=$wt VERIF_BUDGET_S=$budget VERIF_JOBS=${VERIF_JOBS:-4} VERIF_EVIDENCE_DIR=$wt/.evidence timeout 900 ./check $chk 2>&1)
rc=$?
cls=$(echo "$out" | grep -E "^  class:" | sed 's/  class: //' | tr '\n' ' ')
echo "$id $chk rc=$rc $cls"
git -C /repo worktree remove --force $wt
