#!/venv/bin/python
"""Copies wave-2 seeded changes from /tmp/w13/<P>/_out into /verif/seeded/<P>-4, -5."""
import json, os, shutil, sys
for P in sys.argv[1:]:
    out = '/tmp/w13/%s/_out' % P
    for k in (1, 2):
        pf = '%s/patch%d.diff' % (out, k)
        if not os.path.exists(pf):
            continue
        d = '/verif/seeded/%s-%d' % (P, k + 25)
        os.makedirs(d, exist_ok=True)
        shutil.copy(pf, d + '/patch.diff')
        src = open('%s/demo%d.py' % (out, k)).read()
        expr = 'os.environ.get("SEED_REPO", "/repo")'
        wt = '/tmp/w13/%s' % P
        src = src.replace('"%s/"' % wt, '(%s + "/")' % expr).replace("'%s/'" % wt, '(%s + "/")' % expr)
        src = src.replace('"%s"' % wt, expr).replace("'%s'" % wt, expr)
        src = src.replace(wt, '$SEED_REPO')
        lines = src.split('\n')
        for i, l in enumerate(lines):
            if (l.startswith('import ') or l.startswith('from ')) and not l.startswith('from __future__'):
                lines.insert(i, 'import os')
                break
        open(d + '/demo.py', 'w').write('\n'.join(lines))
        meta = json.load(open('%s/meta%d.json' % (out, k)))
        meta['origin'] = 'thirteenth (mini) wave, four properties, one change each: independent sub-agent given only the property text and a scratch worktree of /repo HEAD (with the fix: commits)'
        json.dump(meta, open(d + '/meta.json', 'w'), indent=1)
        print(d)
    if os.path.exists(out + '/NOTES.md'):
        shutil.copy(out + '/NOTES.md', '/verif/seeded/NOTES-w13-%s.md' % P)
