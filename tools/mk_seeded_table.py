#!/venv/bin/python
"""Rewrites the table of DESIGN.md section 11 from seeded/*/meta.json and seeded/RESULTS.txt."""
import json
import os
import re

HERE = os.path.dirname(os.path.dirname(os.path.abspath(__file__)))
res = {}
for l in open(os.path.join(HERE, "seeded", "RESULTS.txt")):
    parts = l.split()
    if len(parts) >= 3 and parts[2].startswith("rc="):
        res[parts[0]] = (parts[2], parts[3:], parts[1])
rows = []
for d in sorted(os.listdir(os.path.join(HERE, "seeded"))):
    mp = os.path.join(HERE, "seeded", d, "meta.json")
    if not os.path.exists(mp):
        continue
    m = json.load(open(mp))
    summ = m["summary"].replace("|", "/").replace("\n", " ")
    if len(summ) > 170:
        summ = summ[:167] + "..."
    rc, cls, chk = res.get(d, ("not swept", [], None))
    verdict = "caught" if rc == "rc=1" else rc
    if cls and cls[-1] == "[default-budget]":
        cls = cls[:-1]
        verdict = "caught with the check's default budget (all cores, registered quick time); missed by the thin sweep"
    if chk and chk != d.split("-")[0] and rc == "rc=1":
        verdict = "caught by the %s check (see meta.json)" % chk
    rows.append("| %s | %s | %s | %s |" % (d, summ, verdict, "<br>".join("`%s`" % c for c in cls[:3])))
table = ("| id | change (sub-agent's summary) | quick check of its property (or of the property named) | violation classes reported (first three) |\n|---|---|---|---|\n"
         + "\n".join(rows) + "\n")
p = os.path.join(HERE, "DESIGN.md")
s = open(p).read()
a = s.index("<!-- SEEDED-TABLE-BEGIN -->") + len("<!-- SEEDED-TABLE-BEGIN -->\n")
b = s.index("<!-- SEEDED-TABLE-END -->")
s = s[:a] + table + s[b:]
open(p, "w").write(s)
caught = sum(1 for d in res if res[d][0] == "rc=1")
print("%d rows, %d swept, %d caught" % (len(rows), len(res), caught))
