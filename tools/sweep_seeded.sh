#!/bin/bash
# runs every seeded change against the quick check of its own property; writes seeded/RESULTS.txt
out=/verif/seeded/RESULTS.txt
: > $out.tmp
ls /verif/seeded | grep -E '^C[0-9]+-[0-9]+$' | while read id; do echo "$id ${id%%-*}"; done | VERIF_JOBS=${VERIF_JOBS:-4} xargs -P ${PAR:-4} -L 1 /verif/tools/try_seeded.sh >> $out.tmp 2>&1
sort $out.tmp > $out; rm -f $out.tmp; cat $out
