#!/venv/bin/python
"""Regenerates /verif/MANIFEST.json from the table below."""
import json
import os

HERE = os.path.dirname(os.path.dirname(os.path.abspath(__file__)))

NA = [
    ("C03", "id echo and batch order are computed by one sequential loop from the request value; no schedule, clock, fault, delivery or history can change them, so deterministic simulation adds nothing over input generation"),
    ("C05", "error-code assignment and the nothing-ran clause are pure functions of (registry, request)"),
    ("C06", "check_for_errors classification is a pure function of the reply value"),
    ("C07", "load(dump(obj)) on in-memory objects; the RPC clause adds a deterministic transport, not a dependence on it"),
    ("C08", "decoding of an in-memory payload under a flag; no schedule, time, fault or history in it"),
    ("C14", "message construction is a pure function of its arguments"),
    ("C15", "pure data transformation and purity of its argument"),
    ("C20", "dump of in-memory objects under a Config; pure function of input"),
]

TRUST = ("simulated primitives (simverif/simthreading.py, simsocket) are faithful to CPython's threading/socket semantics for the "
         "operations used; pre-emption only at synchronisation operations and source lines of jsonrpclib; time-outs fire only at "
         "quiescence; small-scope bounds as stated in the evidence file; sampling, not exhaustive")

CHECKS = {
    "C09": ("exploration", "4 C09", "deterministic simulation: seeded schedule search (random walk / calibrated PCT) over generated client programs, history oracle",
            "Seeded search over client programs x schedules of the real ThreadPool on a baton scheduler with virtual time; exactly-once, identity of results, no run while stopped and single-worker FIFO are checked on the recorded history. Exploration is the right level: the property quantifies over interleavings, which only a controlled scheduler reaches; the space is sampled (hundreds of thousands of schedules per minute), not enumerated."),
    "C10": ("exploration", "4 C10", "deterministic simulation: seeded schedule search with thread-start fault injection, bounds + bounded-liveness oracle",
            "Same simulator; running-task and serving-worker counts are evaluated after every event, the lower bound between start() and stop(), constructor rejection/clamping over valid and invalid configurations, and progress of up to max_threads mutually dependent (barrier) tasks within a virtual-time bound; thread start failure is injected by index of the start attempt: only the upper bounds while faults may still come, the growth rule again once they have stopped; tasks that submit sub-tasks to their own pool; swept lifecycle-race programs (every single pre-emption point)."),
    "C11": ("exploration", "4 C11", "deterministic simulation: seeded schedule search over lifecycle histories, deadlock detection by quiescence",
            "Same simulator; join()/join(timeout) results are compared with the completion state of earlier tasks at the return instant, stop()/start()/join() termination is decided by the simulator's deadlock and stall detector (virtual time makes hangs cost microseconds), workers must have terminated after stop(), lifecycle calls must be idempotent and never raise; join(timeout) must not give up before its time-out; always-swept lifecycle-race programs (every single pre-emption point of short start/stop/enqueue/join races), untimed join vs stop, zero-timeout pools, a task ending with a BaseException."),
    "C01": ("exploration", "4 C01", "deterministic simulation (fault-free configuration): configuration x schedule x segmentation search of the whole client/server stack, reference call log + JSON normalisation oracle",
            "The fault-free configuration of the full-system simulation: real ServerProxy/MultiCall clients, simulated byte-stream network with seeded segmentation and delay, real plain/pooled/bare-dispatcher servers over TCP, Unix and loopback, protocol versions 1.0/2.0 on both sides; every call has its own registered callable, so exactly-once invocation, argument fidelity, typed equality of the returned value and History == wire transcript are decided per call. The value dimension is sampled by the seeded generator; what the simulator adds is the configuration x schedule x segmentation product and exactly-once under pooled schedules. Also: persistent connections, library logging at DEBUG level, callables that take 7-40 virtual seconds, batch siblings that fail or are notifications, nested exchanges recorded in one History, histories of more than a thousand exchanges, cold-start runs."),
    "C02": ("fault_enumeration", "4 C02", "deterministic simulation with in-flight damage: enumeration of truncation points (sender dies mid-body) and single-character corruption of a request corpus, reply-shape validator",
            "The real plain / pooled server behind the simulated network, and the bare dispatcher, are fed every truncation (the sending peer half-closes after k body bytes while the declared Content-Length stays, which drives the server's short-read branch) and every single-character replacement of a fixed corpus of valid and structurally odd requests, then a healthy probe; oracle written from the property text: HTTP 200, body empty or JSON holding well-formed 1.0/2.0 response objects, errors with integer code and string message, server still serving. Exhaustive over the damage positions of the listed corpus; the corpus itself is a sample. Registered callables raise nine kinds of exceptions (incl. the library's own ProtocolError / TransportError / AppError), a notification pool may be set, requests may arrive with a pause of seconds between headers and body, the library may log at DEBUG level, and two batches of more than a hundred entries are run as they are. One known finding is reported as KNOWN-FINDING (overflowing numbers echoed as Infinity)."),
    "C04": ("exploration", "4 C04", "deterministic simulation: schedule search of notification-pool workers vs request thread, wire oracle + drained call log",
            "Real dispatcher and servers with the notification pool absent or present (1-3 workers) and default / handler-level / instance-level custom dispatch functions; requests built by the client API and raw bodies for the shapes it cannot produce (id null, id '', batches with invalid entries); oracle: number of response objects equals the number of non-notification entries, no response object carries a notification's token, every executable notification is in the call log exactly once after the pools are drained, client notification calls return None, no worker is killed. Callables under a custom dispatch function are known to that function only; persistent connections; a backlog of more than a thousand notifications behind a busy worker."),
    "C12": ("exploration", "4 C12", "deterministic simulation: concurrent clients x server threads x request-pool workers, lifecycle histories, client-death fault injection, differential sequential replay + deadlock detection",
            "Full system with 1-4 (rarely 40-70) concurrent clients, plain / pooled (default and user pools of 1-4 workers) servers on TCP and Unix listeners, lifecycle histories {serve_forever, handle_request loop, never served, serve twice, shutdown with requests in flight, server_close alone while serving, stop requested by a served method, double close}, persistent connections, clients that die in the middle of a request body, slow peers (pauses of 2-120 virtual seconds inside a request), requests without Content-Length, cold-start runs; oracle: each wire reply equals the reply of the same request on a fresh dispatcher served alone, clients only see their own tokens, executions are neither lost nor duplicated, shutdown()/server_close() return (simulated deadlock / stall / livelock detector), listener closed and pool workers terminated afterwards."),
    "C13": ("exploration", "4 C13", "deterministic simulation: request histories and concurrent dispatcher threads, differential against a fresh server per request, Config snapshots",
            "Histories of 1.0/2.0 calls, notifications, batches, invalid and failing requests on one long-lived server (bare dispatcher driven by 1-4 concurrent threads, plain and pooled servers), default and raising custom dispatch functions, methods returning Fault objects; oracle: each reply equals the reply of a fresh server to the same request, explicit 1.0/own-form rule for valid requests, field-by-field snapshots of the server Config and config.DEFAULT before and after, and a seeded mutation fragment on Config.copy() in both directions. On a server configured for 1.0 every response object is judged, error statuses included; cold-start runs with the first two requests of a process under every single pre-emption point; serialisation handlers that refuse values, conversions failing with other exceptions, methods calling sys.exit(), non-finite results, requests whose \"jsonrpc\" member is falsy."),
    "C17": ("exploration", "4 C17", "deterministic simulation: wire observation at a recording peer, seeded segmentation of both directions, read-chunk knob (buggify), gzip/chunked peers",
            "Real client against the recording raw peer (exact bytes on the wire: Content-Length vs body bytes, Content-Type, request target for TCP and unix+http URLs) with identity / gzip / chunked responses whose multi-byte characters straddle the client's read size under random segmentation; real servers fed raw UTF-8 bodies whose multi-byte characters straddle the read-chunk boundary (chunk clamped by a knob; ground truth without the knob is a real 10 MiB+ body, see DESIGN.md); CGI handler through handle_request() with a standard input that delivers the body in pieces; unsupported schemes with and without a caller-supplied transport; supplied and shared transports; content types with parameters and content types set after the proxy was built; empty bodies, notifications, pauses of seconds inside a request, rarely a real body beyond 10 MiB; a raw-UTF-8 JSON back-end drawn per run."),
    "C18": ("exploration", "4 C18", "deterministic simulation: histories of nested header blocks with exits caused by injected transport faults, reference header stack at a recording peer",
            "Generated histories of constructor headers and 0-4 nested _additional_headers blocks (names in random letter case incl. protected ones and User-Agent, non-string values) containing calls / notifications / batches; some calls are hit by an injected transport fault (refuse, reset, 4xx/5xx, truncated body, close before reply) so the blocks are left through the exception the fault caused; oracle: header lines recorded by the peer equal the reference stack's effective headers (most recent definition wins case-insensitively, no duplicates, protected names untouched, configured User-Agent unless pushed) and the transport's stack after every exit equals the one before entering. Also a second proxy with its own constructor headers on the same transport, credentials in the URL, calls refused on the client side while their headers are written, BaseException exits."),
    "C19": ("fault_enumeration", "4 C19", "deterministic simulation: exhaustive enumeration of transport-fault scripts up to a bound at a scripted raw peer, plus seeded long scripts",
            "Real ServerProxy/Transport/UnixTransport against the scripted raw peer; every fault script up to length 3 (quick) / 4 (thorough) over the property's alphabet x {TCP, Unix} x {EOF, reset, EPIPE on a write to a closed peer} is executed, then seeded scripts of length 1-12 with random segmentation; oracle per call: own token or an exception, TransportError fields for non-200 replies, never a value without a healthy reply to its own request, at most one failing call once the script is exhausted and none after a success. The six runs of every script rotate four proxy variants (default, version 1.0, verbose, 1.0 with every other call a notification); seeded scripts also use peers whose healthy replies are delimited by the close of the connection."),
    "C16": ("exploration", "4 C16", "deterministic simulation: line-level interleaving search of set_callback/execute/done/result, history oracle",
            "Generated scripts from 2-4 threads on one FutureResult with pre-emption at every source line of threadpool.py; per-registration callback counts and arguments, done()/result() observations ordered against task completion, exact virtual time of result(timeout) expiry, containment of callback exceptions. Tasks return, raise Exceptions (also falsy ones) or BaseExceptions, or return exception objects; callbacks are functions, partials, callable objects (also falsy ones), bound methods, register further callbacks or read their own future; one callable may be registered several times with different extras. A quarter of the runs are thread-pool programs with callbacks on pooled futures."),
}


def main():
    checks = []
    for pid in sorted(CHECKS):
        level, ref, tech, text = CHECKS[pid]
        checks.append({
            "property_id": pid,
            "quick_cmd": "./check %s --tier quick" % pid,
            "thorough_cmd": "./check %s --tier thorough" % pid,
            "evidence_file": "evidence/%s.json" % pid,
            "replay_cmd_template": "./check replay {path}",
            "engine": "simverif",
            "level_claimed": {"category": level, "text": text, "design_ref": "DESIGN.md section " + ref},
            "level_note": TRUST,
            "technique": tech,
        })
    claimed = set(CHECKS)
    na = [{"property_id": p, "reason": r} for p, r in NA]
    m = {
        "version": 1,
        "setup_cmd": "true",
        "hooks": {
            "guard": "JSONRPCLIB_VERIF",
            "enable": "no source hooks exist: every seam is a module global rebound inside the checker process (DESIGN.md 2.1); checks import /repo's working tree directly (VERIF_REPO overrides the path)",
            "baseline_off_cmd": "cd /repo && /venv/bin/python -m pytest -ra -q -p no:cacheprovider --timeout=900 --continue-on-collection-errors",
            "source_commits": [],
            "add_only": True,
        },
        "engines": [{
            "name": "simverif", "path": "simverif/",
            "serves_properties": sorted(claimed),
            "kind_free_text": "deterministic simulation with fault injection: real OS threads stepped one at a time by a seeded baton scheduler, virtual clock, simulated sockets, sys.monitoring line pre-emption, own shrinker and replay files",
        }],
        "checks": checks,
        "not_applicable": na,
        "notes": "Exit codes of every command: 0 held, 1 VIOLATION (replaying, minimised), 2 HARNESS-ERROR (nothing claimed). Genuine defects found and repaired are listed in known_findings.json (status fixed; thirteen fix commits in /repo, all starting with 'fix:'); one genuine defect is recorded, not repaired (status known, property C02): its check prints a KNOWN-FINDING line and exits 0.",
    }
    with open(os.path.join(HERE, "MANIFEST.json"), "w") as fh:
        json.dump(m, fh, indent=1)
        fh.write("\n")


if __name__ == "__main__":
    main()
