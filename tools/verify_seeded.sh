#!/bin/bash
# usage: verify_seeded.sh <seeded id>   -- confirms a seeded change against /repo HEAD in a scratch worktree
# prints one line: <id> apply=<ok|FAIL> demo_clean=<rc> tests=<summary> demo_mut=<rc>
id=$1
d=/verif/seeded/$id
wt=$(mktemp -d /tmp/sv.XXXXXX)
rmdir $wt
git -C /repo worktree add -q --detach $wt HEAD || exit 2
export SEED_REPO=$wt PYTHONDONTWRITEBYTECODE=1
cd $wt
timeout 120 /venv/bin/python $d/demo.py > $wt/.demo_clean.log 2>&1; rc_clean=$?
if git apply --check $d/patch.diff 2>/dev/null; then
  git apply $d/patch.diff; ap=ok
  tests=$(timeout 900 /venv/bin/python -m pytest -q -p no:cacheprovider --timeout=900 tests 2>&1 | tail -1)
  timeout 120 /venv/bin/python $d/demo.py > $wt/.demo_mut.log 2>&1; rc_mut=$?
else
  ap=FAIL; tests=-; rc_mut=-
fi
echo "$id apply=$ap demo_clean=$rc_clean tests=[$tests] demo_mut=$rc_mut"
cd /
git -C /repo worktree remove --force $wt
