#!/bin/bash
# usage: sweep_some.sh <egrep pattern of ids>   -- sweeps matching seeded changes and merges into seeded/RESULTS.txt
pat=$1
out=/verif/seeded/RESULTS.txt
tmp=$(mktemp)
ls /verif/seeded | grep -E '^C[0-9]+-[0-9]+$' | grep -E "$pat" | while read id; do echo "$id ${id%%-*}"; done | VERIF_SHRINK_S=${VERIF_SHRINK_S:-8} VERIF_JOBS=${VERIF_JOBS:-3} xargs -P ${PAR:-2} -L 1 /verif/tools/try_seeded.sh > $tmp 2>&1
grep -vE "$(cut -d' ' -f1 $tmp | grep -E '^C[0-9]+-[0-9]+$' | paste -sd'|' | sed 's/|/ |^/g; s/^/^/; s/$/ /')" $out > $out.new 2>/dev/null || cp $out $out.new
grep -E '^C[0-9]+-[0-9]+ ' $tmp >> $out.new
sort -u $out.new > $out; rm -f $out.new $tmp
wc -l $out
