#!/bin/bash
# usage: sweep_some.sh <egrep pattern of ids>   -- sweeps matching seeded changes and merges into seeded/RESULTS.txt
# (one line per id; a new result replaces the old one)
pat=$1
out=/verif/seeded/RESULTS.txt
tmp=$(mktemp)
ls /verif/seeded | grep -E '^C[0-9]+-[0-9]+$' | grep -E "$pat" | while read id; do chk=$(/venv/bin/python -c "import json,sys;print(json.load(open('/verif/seeded/$id/meta.json')).get('caught_by') or '${id%%-*}')"); echo "$id $chk"; done | VERIF_SHRINK_S=${VERIF_SHRINK_S:-8} VERIF_JOBS=${VERIF_JOBS:-3} xargs -P ${PAR:-2} -L 1 /verif/tools/try_seeded.sh > $tmp 2>&1
/venv/bin/python - "$out" "$tmp" <<'PY'
import re, sys
out, tmp = sys.argv[1:3]
rows = {}
for path in (out, tmp):
    try:
        for line in open(path):
            m = re.match(r"^(C[0-9]+-[0-9]+) ", line)
            if m:
                rows[m.group(1)] = line.rstrip() + "\n"   # later files win
    except IOError:
        pass
key = lambda i: (i.split("-")[0], int(i.split("-")[1]))
open(out, "w").write("".join(rows[i] for i in sorted(rows, key=key)))
print(len(rows), "ids in", out)
PY
rm -f $tmp
