#!/bin/bash
# usage: try_benign.sh <patch file> [budget_s]  -- all 12 quick checks against a scratch copy of /repo with a benign change: every rc must be 0
pf=$1; budget=${2:-20}
wt=$(mktemp -d /tmp/tb.XXXXXX); rmdir $wt
git -C /repo worktree add -q --detach $wt HEAD || exit 2
git -C $wt apply $pf || { echo "$(basename $(dirname $pf))/$(basename $pf) APPLY-FAILED"; git -C /repo worktree remove --force $wt; exit 2; }
res=""
for c in C01 C02 C04 C09 C10 C11 C12 C13 C16 C17 C18 C19; do
  out=$(cd /verif && VERIF_REPO=$wt VERIF_BUDGET_S=$budget VERIF_JOBS=${VERIF_JOBS:-4} VERIF_SHRINK_S=8 VERIF_EVIDENCE_DIR=$wt/.evidence timeout 900 ./check $c 2>/dev/null)
  rc=$?
  if [ $rc -ne 0 ]; then
    cls=$(echo "$out" | grep -E "^  class:|HARNESS" | head -3 | tr '\n' ' ' | cut -c1-300)
    res="$res [$c rc=$rc $cls]"
  fi
done
echo "$(basename $(dirname $(dirname $pf)))/$(basename $pf): ${res:-all 12 checks rc=0}"
git -C /repo worktree remove --force $wt
