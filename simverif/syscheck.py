"""
Generators and oracles on top of sysim: C12 (isolation and shutdown), and the
shared analysis used by C01 / C04 / C13 full-system variants.
"""

import copy
import json
import re

from . import core, sysim
from .runner import Violation

INF = float("inf")
TOKEN = re.compile(r"c\d+o\d+(?:e\d+)?")

RAW_BODIES = [
    '{"jsonrpc": "2.0", "method"',
    "[]",
    "[1]",
    "nonsense",
    '{"id": 1}',
    '{"jsonrpc": "2.0", "method": 1, "id": 3}',
    "",
    '[{"jsonrpc": "2.0", "method": "echo", "params": ["RAWTOKEN"], "id": 9}, 5]',
    '[{"jsonrpc": "2.0", "method": "echo", "params": ["RAWTOKEN"], "id": 1}, {"jsonrpc": "2.0", "method": "echo", "params": ["s"], "id": [7]}, {"jsonrpc": "2.0", "method": "echo", "params": ["t"], "id": {"a": 1}}]',
]


# ---------------------------------------------------------------------------
# generator (C12)


def gen_c12_small(rng):
    """Two or three clients with one request each on a small pooled server: short runs, so that a narrow window
    between two requests handled at the same time is likely to be tried."""
    mx = rng.choice([2, 2, 3])
    sv = {"kind": "pooled-user", "family": "tcp", "version": rng.choice([2.0, 2.0, 1.0]), "pool": [mx, rng.randrange(0, mx + 1)],
          "pool_timeout": 2.0}
    methods = {"echo": {"kind": "echo"}, "fail": {"kind": "fail"}, "err": {"kind": "sharedfault"}, "ns.echo": {"kind": "echo"}}
    clients = []
    for ci in range(rng.randint(2, 3)):
        tok = "c%do0" % ci
        m = rng.choice(["echo", "err", "err", "fail", "ns.echo", "nope"])
        op = rng.choice([["call", m, [tok, 0]], ["call", m, [tok]], ["batch", [["call", m, [tok + "e0"]], ["notify", "echo", [tok + "e1"]]]]])
        clients.append({"version": rng.choice([None, 2.0, 1.0]), "history": False, "ops": [op]})
    return {"server": sv, "net": {"seg": "whole", "delay": 0}, "methods": methods, "clients": clients, "lifecycle": "serve"}


def gen_c12_flood(rng):
    """Many clients at once on a pooled server with its default pool (30 workers): more connections pending than the
    pool has workers, each with one slow call; every one of them is answered."""
    n = rng.choice([40, 64, 70])
    sv = {"kind": "pooled", "family": rng.choice(["tcp", "unix"]), "version": 2.0}
    methods = {"echo": {"kind": "echo"}, "slow": {"kind": "slow", "d": rng.choice([1.0, 2.0])}}
    clients = [{"version": None, "history": False, "ops": [["call", "slow", ["c%do0" % ci, 0]]]} for ci in range(n)]
    return {"server": sv, "net": {"seg": "whole", "delay": 0}, "methods": methods, "clients": clients, "lifecycle": "serve", "big": True}


def gen_c12(rng, big=False):
    k0 = rng.random()
    if k0 < 0.003:
        return gen_c12_flood(rng)
    if k0 < 0.2:
        return gen_c12_small(rng)
    kind = rng.choice(["plain", "plain", "pooled", "pooled-user", "pooled-user"])
    sv = {"kind": kind, "family": rng.choice(["tcp", "tcp", "unix"]), "version": rng.choice([2.0, 2.0, 2.0, 1.0])}
    if kind == "pooled-user":
        mx = rng.choice([1, 1, 2, 3, 4])
        sv["pool"] = [mx, rng.randrange(0, mx + 1)]
        sv["pool_timeout"] = rng.choice([0.5, 2.0, 4.0])
    k = rng.random()
    if k < 0.3:
        mx = rng.choice([1, 2, 3])
        sv["npool"] = [mx, rng.randrange(0, mx + 1)]
    elif k < 0.4 and kind == "pooled-user":
        sv["npool"] = "shared"
    if rng.random() < 0.15:
        sv["custom_dispatch"] = True
    life = rng.choices(["serve", "never-served", "shutdown-inflight", "handle-loop", "serve-twice", "close-while-serving", "stop-rpc"],
                       [52, 8, 12, 8, 8, 8 if kind != "plain" else 0, 5 if kind != "plain" else 0])[0]
    methods = {"echo": {"kind": "echo"}, "fail": {"kind": "fail"},
               "slow": {"kind": "slow", "d": rng.choice([0.5, 1.0, 2.0, 2.0, 7.0, 40.0])},
               "ns.echo": {"kind": "echo"}, "quit": {"kind": "exit"}, "err": {"kind": "sharedfault"}}
    if life in ("shutdown-inflight", "close-while-serving"):
        methods["gate"] = {"kind": "gate", "gate": "g"}
    names = sorted(methods) + ["nope"]
    nclients = rng.randint(1, 5 if big else 4) if life != "never-served" else 0
    clients = []
    nreq = 0
    for ci in range(nclients):
        ops = []
        for oi in range(rng.randint(1, 6 if big else 4)):
            tok = "c%do%d" % (ci, oi)
            k = rng.random()
            if k < 0.45:
                m = rng.choice(names)
                if life in ("shutdown-inflight", "close-while-serving") and rng.random() < 0.5:
                    m = rng.choice(["gate", "slow"])
                if rng.random() < 0.2:
                    ops.append(["call", m, {"token": tok, "x": oi}] if m in ("echo", "ns.echo") else ["call", m, [tok]])
                else:
                    ops.append(["call", m, [tok, oi]])
                nreq += 1
            elif k < 0.62:
                ops.append(["notify", rng.choice(names), [tok]])
                nreq += 1
            elif k < 0.8:
                ents = []
                for e in range(rng.randint(1, 3)):
                    ents.append([rng.choice(["call", "call", "notify"]), rng.choice(names), ["%se%d" % (tok, e)]])
                ops.append(["batch", ents])
                nreq += 1
            elif k < 0.88:
                ops.append(["raw", rng.choice(RAW_BODIES).replace("RAWTOKEN", tok)])
                nreq += 1
            elif k < 0.9:
                # a slow peer: the same kind of request, arriving in two parts seconds apart
                ops.append(["rawslow", rng.choice(RAW_BODIES).replace("RAWTOKEN", tok), rng.choice(["in-headers", "before-body", "in-body"]),
                            rng.choice([2.0, 7.0, 30.0, 120.0])])
                nreq += 1
            elif k < 0.93 and life != "handle-loop":
                body = '{"jsonrpc": "2.0", "method": "echo", "params": ["%s"], "id": 5}' % tok
                ops.append(["rawtrunc", body, rng.randrange(0, len(body))])
            elif k < 0.96 and life != "handle-loop":
                ops.append(["abort", rng.choice(["connect-close", "half-headers", "no-read", "garbage", "no-length", "hold-open"]), tok])
            else:
                ops.append(["sleep", rng.choice([0.25, 0.5, 1.0])])
        clients.append({"version": rng.choice([None, None, 2.0, 1.0]), "history": False, "ops": ops})
    if life in ("serve", "stop-rpc") and rng.random() < 0.25:
        sv["http11"] = True  # the handler class speaks HTTP/1.1: the library's clients keep their connections open
    if life == "stop-rpc":
        # one more client, started when the others are done: it calls the method that stops the serving loop
        methods["stop_server"] = {"kind": "shutdown"}
        clients.append({"version": rng.choice([None, 2.0, 1.0]), "history": False, "ops": [["call", "stop_server", ["c%do0" % nclients]]]})
    prog = {"server": sv, "net": {"seg": rng.choice(["whole", "whole", "random", "small"]), "delay": rng.choice([0, 0, 0, 8, 64])},
            "methods": methods, "clients": clients, "lifecycle": life}
    if life == "handle-loop":
        prog["handle_count"] = nreq
        # a sequential handle_request loop cannot serve a slow request and others at once: fine, they queue
    if life in ("shutdown-inflight", "close-while-serving"):
        prog["shutdown_at"] = rng.choice([0.0, 0.25, 0.5, 1.0, 2.0])
        prog["open_after"] = rng.choice([0.5, 2.0, 4.0])
    if rng.random() < 0.1:
        prog["double_close"] = True
    if rng.random() < 0.04:
        prog["cold"] = True
    if rng.random() < 0.15:
        prog["debug_log"] = True  # the application runs the library's loggers at DEBUG level
    if life == "serve" and rng.random() < 0.15:
        prog["second_server"] = True
    elif life in ("serve", "handle-loop") and rng.random() < 0.12:
        prog["second_server"] = "early"
    if sv["family"] == "unix" and not clients and rng.random() < 0.5:
        sv["abstract"] = True
    return prog


# ---------------------------------------------------------------------------
# analysis


class SysHist(object):
    pass


def jnorm(text):
    """Parsed JSON of a body, or a marker for empty / undecodable text."""
    if text is None:
        return "<none>"
    if text == "":
        return "<empty>"
    try:
        return json.loads(text)
    except ValueError:
        return "<not-json:%s>" % text[:40]


def parse(program, s, run):
    h = SysHist()
    h.ops = {}
    h.calls = {}  # token -> [begin idx]
    h.call_args = []
    h.life = []
    h.end_alive = None
    h.fileno = None
    h.second_fileno = None
    h.n = len(s.log)
    h.clients_done = INF
    h.close_called = INF
    for idx, ev in enumerate(s.log):
        kind = ev[2]
        if kind == "op.call":
            h.ops[(ev[3], ev[4])] = {"ci": ev[3], "oi": ev[4], "kind": ev[5], "call": idx, "ret": INF, "out": None,
                                     "op": program["clients"][ev[3]]["ops"][ev[4]]}
        elif kind == "op.ret":
            o = h.ops[(ev[3], ev[4])]
            o["ret"] = idx
            o["out"] = json.loads(ev[6])
        elif kind == "call.begin":
            toks = TOKEN.findall(ev[4])
            for t in toks[:1]:
                h.calls.setdefault(t, []).append((idx, ev[3], ev[1]))
            h.call_args.append((idx, ev[3], ev[4], ev[1]))
        elif kind == "life.call":
            h.life.append({"name": ev[3], "call": idx, "ret": INF, "out": None, "t0": ev[4]})
            if ev[3] == "server_close" and h.close_called == INF:
                h.close_called = idx
        elif kind == "life.ret":
            for L in reversed(h.life):
                if L["name"] == ev[3] and L["ret"] == INF:
                    L["ret"] = idx
                    L["out"] = ev[4]
                    break
        elif kind == "end":
            h.end_alive = ev[3]
        elif kind == "listener.fileno":
            h.fileno = ev[3]
        elif kind == "second.fileno":
            h.second_fileno = ev[3]
        elif kind == "clients.done":
            h.clients_done = idx
    # wire: per connection request / response texts
    h.wire = []
    if program["server"]["kind"] == "dispatcher":
        for k, ent in enumerate(run.wire):
            h.wire.append({"key": ("loop", k), "req": ent["req"], "resp": ent["resp"], "status": 200})
    elif s.net is not None:
        for conn in s.net.conns:
            reqs = sysim.parse_http(conn.c2s)
            resps = sysim.parse_http(conn.s2c)
            for mi, m in enumerate(reqs):
                if m[2] is None:
                    continue
                if m[1].get("content-length") is None:
                    continue  # a request that does not declare its length is not a well-formed exchange: no reference reply
                try:
                    text = m[2].decode("utf-8")
                except UnicodeDecodeError:
                    continue
                ent = {"key": (conn.cid, mi), "req": text, "resp": None, "status": None, "req_headers": m[1],
                       "declared": m[1].get("content-length"), "req_bytes": len(m[2]), "target": m[0]}
                if mi < len(resps) and resps[mi][2] is not None:
                    r = resps[mi]
                    try:
                        ent["resp"] = r[2].decode("utf-8")
                    except UnicodeDecodeError:
                        ent["resp"] = "<undecodable>"
                    ent["status"] = int(r[0].split()[1]) if len(r[0].split()) > 1 and r[0].split()[1].isdigit() else None
                    ent["resp_headers"] = r[1]
                    ent["resp_bytes"] = len(r[2])
                h.wire.append(ent)
    h.ref = getattr(run, "ref", {})
    return h


def op_tokens(op):
    """Tokens an operation sends: {token: (kind, method)}."""
    out = {}
    if op[0] in ("call", "notify"):
        for t in TOKEN.findall(json.dumps(op[2])):
            out[t] = (op[0], op[1])
    elif op[0] == "batch":
        for e in op[1]:
            for t in TOKEN.findall(json.dumps(e[2])):
                out[t] = (e[0], e[1])
    elif op[0] in ("raw", "rawslow", "rawtrunc"):
        for t in TOKEN.findall(op[1]):
            out[t] = ("call", "echo")
    elif op[0] == "abort":
        out[op[2]] = ("call", "echo")
    return out


def analyse_c12(program, s, run, verdict):
    v = []
    h = parse(program, s, run)
    life = program.get("lifecycle", "serve")
    if life == "serve-twice":
        life = "serve"
    methods = program.get("methods", {})
    # termination
    if verdict is not None and verdict.kind in ("deadlock", "stall", "step-cap"):
        pend = [L["name"] for L in h.life if L["ret"] == INF]
        pops = sorted(set(o["kind"] for o in h.ops.values() if o["ret"] == INF))
        if pend:
            v.append(Violation("C12", "shutdown-terminates", "%s:%s:%s" % (verdict.kind, "+".join(pend), life),
                               "%s while %s was in progress (lifecycle %s): %s" % (verdict.kind, pend, life, verdict.detail)))
        else:
            v.append(Violation("C12", "serving", "%s:client-requests-pending" % verdict.kind,
                               "%s with client operations pending %s: %s" % (verdict.kind, pops, verdict.detail)))
        return v, h
    for tid, name, ex in s.thread_errors:
        v.append(Violation("C12", "thread-crash", ex.split("(")[0], "uncaught exception in simulated thread %s: %s" % (name, ex)))
    for L in h.life:
        if L["out"] and L["out"] != "ok":
            v.append(Violation("C12", "shutdown-terminates", "raises:%s:%s" % (L["name"], L["out"].split(":")[1]),
                               "%s() raised %s" % (L["name"], L["out"])))
    if program["server"]["kind"] != "dispatcher":
        if h.fileno is not None and h.fileno != -1:
            v.append(Violation("C12", "socket-closed", "listener-open", "listening socket still open after server_close()"))
        if h.second_fileno is not None and h.second_fileno != -1:
            v.append(Violation("C12", "socket-closed", "second-listener-open", "listening socket of the second server still open after its server_close()"))
        if h.end_alive:
            names = sorted(set(n for _, n in h.end_alive))
            v.append(Violation("C12", "workers-terminate", "alive:%s" % "+".join(x.split("-")[0] for x in names),
                               "worker threads still alive after the server was closed: %s" % names))
    # isolation: wire-level differential against a fresh dispatcher, one request at a time
    for ent in h.wire:
        ref = h.ref.get(ent["key"])
        if ref is None or ent["resp"] is None:
            continue
        if ent.get("status") not in (200, None):
            if not str(ref).startswith("EXC:"):
                v.append(Violation("C12", "isolation", "http-%s" % ent.get("status"),
                                   "request answered with HTTP %s; alone it is answered normally: %s" % (ent.get("status"), ent["req"][:80])))
            continue
        if jnorm(ent["resp"]) != jnorm(ref):
            v.append(Violation("C12", "isolation", "reply-differs-from-sequential",
                               "reply %s differs from the reply to the same request served alone %s (request %s)" % (
                                   ent["resp"][:120], str(ref)[:120], ent["req"][:80])))
    # client level: own tokens only
    for key in sorted(h.ops):
        o = h.ops[key]
        if o["ret"] == INF or o["kind"] in ("sleep", "rawtrunc", "abort"):
            continue
        mine = op_tokens(o["op"])
        seen = set(TOKEN.findall(json.dumps(o["out"])))
        foreign = seen - set(mine)
        if foreign:
            v.append(Violation("C12", "isolation", "foreign-token",
                               "client %d op %d received tokens %s of other requests" % (o["ci"], o["oi"], sorted(foreign))))
        if life in ("serve", "handle-loop") and o["out"][0] == "exc":
            v.append(Violation("C12", "serving", "request-failed:%s" % o["out"][1],
                               "client %d op %d (%s) failed with %s on a fault-free network" % (o["ci"], o["oi"], o["kind"], o["out"][1:])))
        if life in ("serve", "handle-loop") and o["kind"] == "call" and o["out"][0] == "value":
            if o["op"][1] in methods and methods[o["op"][1]]["kind"] in ("echo", "slow", "gate"):
                if not (set(mine) <= seen):
                    v.append(Violation("C12", "isolation", "own-token-missing", "reply to client %d op %d lacks its own token" % (o["ci"], o["oi"])))
    # executions: exactly once when served, never twice
    delivered = set()
    for ent in h.wire:
        delivered.update(TOKEN.findall(ent["req"]))
    for key in sorted(h.ops):
        o = h.ops[key]
        for tok, (kind, m) in sorted(op_tokens(o["op"]).items()):
            n = len(h.calls.get(tok, []))
            if n > 1:
                v.append(Violation("C12", "executions", "duplicated", "request %s executed %d times" % (tok, n)))
            registered = m in methods
            if o["op"][0] in ("raw", "rawslow", "rawtrunc", "abort"):
                continue
            if life in ("serve", "handle-loop") and registered and o["ret"] != INF and tok in delivered and n == 0:
                v.append(Violation("C12", "executions", "lost", "request %s (%s %s) was answered/accepted but never executed" % (tok, kind, m)))
            if not registered and n:
                v.append(Violation("C12", "executions", "phantom", "unregistered method executed for %s" % tok))
    return v, h


class C12Scenario(object):
    name = "system-c12"
    props = ("C12",)

    def __init__(self, tier="quick"):
        self.tier = tier
        self.args = {"tier": tier}

    def generate(self, rng):
        return gen_c12(rng, self.tier == "thorough")

    def run(self, program, decider, chooser=None):
        s, run, verdict = sysim.execute(program, decider, chooser)
        viol, h = analyse_c12(program, s, run, verdict)
        p = dict(s.probes)
        life = program.get("lifecycle")
        p["lifecycle_" + str(life)] = 1
        p["server_" + program["server"]["kind"]] = 1
        p["family_" + program["server"].get("family", "loop")] = 1
        if len(set(c[2] for cl in h.calls.values() for c in cl)) > 1:
            p["handlers_on_several_threads"] = 1
        # two handler bodies overlapping in time
        ev = []
        for idx, e in enumerate(s.log):
            if e[2] == "call.begin":
                ev.append((idx, 1))
            elif e[2] == "call.end":
                ev.append((idx, -1))
        cur = mx = 0
        for _, d in ev:
            cur += d
            mx = max(mx, cur)
        if mx >= 2:
            p["two_methods_executing_at_once"] = 1
        if life in ("shutdown-inflight", "close-while-serving") and any(e[2] == "call.begin" for e in s.log[:_find(s.log, "inflight.shutdown")]):
            p["shutdown_with_request_in_flight"] = 1
        if any(o["kind"] == "raw" for o in h.ops.values()):
            p["invalid_body_sent"] = 1
        if any(o["kind"] == "rawtrunc" for o in h.ops.values()):
            p["client_died_mid_body"] = 1
        if any(o["kind"] == "rawslow" for o in h.ops.values()):
            p["request_with_a_pause_of_seconds_inside"] = 1
        if len(program["clients"]) >= 40:
            p["more_clients_at_once_than_pool_workers"] = 1
        if any(o["kind"] == "abort" for o in h.ops.values()):
            p["client_aborted_connection"] = 1
        if any(o["kind"] == "abort" and o["op"][1] == "no-length" for o in h.ops.values()):
            p["request_without_length"] = 1
        if any(o["kind"] == "abort" and o["op"][1] == "hold-open" for o in h.ops.values()):
            p["client_keeps_its_connection_open_after_the_reply"] = 1
        if program["server"].get("npool") == "shared":
            p["shared_request_and_notification_pool"] = 1
        if program["server"].get("http11") and any(len(sysim.parse_http(c.c2s)) > 1 for c in (s.net.conns if s.net is not None else [])):
            p["several_requests_on_one_connection"] = 1
        if program["server"].get("abstract"):
            p["abstract_unix_address"] = 1
        if s.faults.get("close_with_unread_data") or s.faults.get("write_to_closed_peer"):
            p["connection_died_under_the_handler"] = 1
        stats = {"steps": s.step, "switches": s.nswitch, "simtime": s.now, "verdict": verdict.kind if verdict else None,
                 "faults": dict(s.faults), "probes": p,
                 "states": set([(program["server"]["kind"], life, min(mx, 3), len(program["clients"]))]),
                 "nontrivial": bool(s.nswitch and (h.calls or life == "never-served"))}
        return s, viol, stats

    def shrink_candidates(self, program):
        p = program
        for ci in range(len(p["clients"]) - 1, -1, -1):
            q = copy.deepcopy(p)
            del q["clients"][ci]
            _fix_handle_count(q)
            yield q
        for ci in range(len(p["clients"])):
            for oi in range(len(p["clients"][ci]["ops"]) - 1, -1, -1):
                q = copy.deepcopy(p)
                del q["clients"][ci]["ops"][oi]
                _fix_handle_count(q)
                yield q
                op = p["clients"][ci]["ops"][oi]
                if op[0] == "batch" and len(op[1]) > 1:
                    for e in range(len(op[1])):
                        q = copy.deepcopy(p)
                        del q["clients"][ci]["ops"][oi][1][e]
                        yield q
        sv = p["server"]
        for key, val in (("npool", None), ("custom_dispatch", False), ("family", "tcp"), ("version", 2.0)):
            if sv.get(key) not in (val, None):
                q = copy.deepcopy(p)
                q["server"][key] = val
                yield q
        if sv["kind"] == "pooled-user" and sv.get("pool") != [1, 0]:
            q = copy.deepcopy(p)
            q["server"]["pool"] = [1, 0]
            yield q
        if p.get("net") != {"seg": "whole", "delay": 0}:
            q = copy.deepcopy(p)
            q["net"] = {"seg": "whole", "delay": 0}
            yield q
        if p.get("double_close"):
            q = copy.deepcopy(p)
            del q["double_close"]
            yield q
        if p.get("second_server"):
            q = copy.deepcopy(p)
            del q["second_server"]
            yield q
        for ci in range(len(p["clients"])):
            if p["clients"][ci].get("version") is not None:
                q = copy.deepcopy(p)
                q["clients"][ci]["version"] = None
                yield q


def _fix_handle_count(q):
    if q.get("lifecycle") == "handle-loop":
        q["handle_count"] = sum(1 for c in q["clients"] for o in c["ops"] if o[0] != "sleep")


def _find(log, kind):
    for i, e in enumerate(log):
        if e[2] == kind:
            return i
    return len(log)
