"""
Binds the simulator into the repository's modules (the seams of DESIGN.md 2.1).

The repository is imported from VERIF_REPO (default /repo), first on sys.path,
so every check runs the current working tree.  No bytecode is written there.
"""

import logging
import os
import sys

sys.dont_write_bytecode = True

REPO = os.path.abspath(os.environ.get("VERIF_REPO", "/repo"))

_done = {}


def repo():
    """Imports jsonrpclib from REPO and returns the package."""
    if "pkg" not in _done:
        if REPO not in sys.path[:1]:
            sys.path.insert(0, REPO)
        import jsonrpclib

        where = os.path.abspath(jsonrpclib.__file__)
        if not where.startswith(REPO + os.sep):
            raise RuntimeError("jsonrpclib imported from %s, not from %s" % (where, REPO))
        logging.disable(logging.CRITICAL)
        _done["pkg"] = jsonrpclib
    return _done["pkg"]


def pool_seams(lines=True):
    """threadpool.py on simulated threads, queue and clock."""
    repo()
    from . import core, simthreading, simqueue
    import jsonrpclib.threadpool as tp

    if "pool" not in _done:
        tp.threading = simthreading.module()
        tp.queue = simqueue.module()
        _done["pool"] = tp
    if lines and "pool-lines" not in _done:
        core.instrument_modules([tp])
        _done["pool-lines"] = True
    return tp


def tree_id():
    """A hash of the jsonrpclib sources the check ran against."""
    import hashlib

    h = hashlib.sha1()
    base = os.path.join(REPO, "jsonrpclib")
    for name in sorted(os.listdir(base)):
        if name.endswith(".py"):
            with open(os.path.join(base, name), "rb") as fh:
                h.update(name.encode())
                h.update(fh.read())
    return h.hexdigest()[:16]
