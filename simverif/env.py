"""
Binds the simulator into the repository's modules (the seams of DESIGN.md 2.1).

The repository is imported from VERIF_REPO (default /repo), first on sys.path,
so every check runs the current working tree.  No bytecode is written there.
"""

import logging
import os
import sys

sys.dont_write_bytecode = True

REPO = os.path.abspath(os.environ.get("VERIF_REPO", "/repo"))

_done = {}


def repo():
    """Imports jsonrpclib from REPO and returns the package."""
    if "pkg" not in _done:
        if REPO not in sys.path[:1]:
            sys.path.insert(0, REPO)
        import jsonrpclib

        where = os.path.abspath(jsonrpclib.__file__)
        if not where.startswith(REPO + os.sep):
            raise RuntimeError("jsonrpclib imported from %s, not from %s" % (where, REPO))
        logging.disable(logging.CRITICAL)
        _done["pkg"] = jsonrpclib
    return _done["pkg"]


def _shim_time(mod):
    """Should a module of the repository use ``time`` (none does today), it reads the virtual clock."""
    import time as _time
    from . import simnet

    if getattr(mod, "time", None) is _time:
        mod.time = simnet.SimTimeModule()


def pool_seams(lines=True):
    """threadpool.py on simulated threads, queue and clock."""
    repo()
    from . import core, simthreading, simqueue
    import jsonrpclib.threadpool as tp

    if "pool" not in _done:
        tp.threading = simthreading.module()
        tp.queue = simqueue.module()
        _shim_time(tp)
        _done["pool"] = tp
    if lines and "pool-lines" not in _done:
        core.instrument_modules([tp])
        _done["pool-lines"] = True
    return tp


class _UUIDShim(object):
    """Deterministic request ids: jsonrpclib.jsonrpc.uuid."""

    @staticmethod
    def uuid4():
        import uuid
        from . import core

        s = core._ACTIVE
        if s is None:
            return uuid.uuid4()
        s.idgen += 1
        return uuid.UUID(int=(0x4000 << 64) | (0x8000 << 48) | s.idgen)


def net_seams(lines=("server", "client", "pool")):
    """The whole client/server stack on simulated sockets, threads and clock."""
    repo()
    pool_seams(lines="pool" in lines)
    from . import core, simthreading, simnet
    import socketserver
    import http.client
    import http.server
    import jsonrpclib.jsonrpc as jc
    import jsonrpclib.SimpleJSONRPCServer as js

    if "net" not in _done:
        sm = simnet.module()
        socketserver.socket = sm
        socketserver._ServerSelector = simnet.SimSelector
        socketserver.time = simnet.sim_monotonic
        socketserver.threading = simthreading.module()
        http.client.socket = sm
        http.server.time = simnet.SimTimeModule()
        jc.socket = sm
        jc.uuid = _UUIDShim
        js.fcntl = None
        _shim_time(jc)
        _shim_time(js)
        import threading as _real_threading

        for m in (jc, js):
            if getattr(m, "threading", None) is _real_threading:
                m.threading = simthreading.module()
        _done["net"] = True
    mods = []
    if "server" in lines and "server-lines" not in _done:
        mods.append(js)
        _done["server-lines"] = True
    if "client" in lines and "client-lines" not in _done:
        mods.append(jc)
        _done["client-lines"] = True
    if "jsonclass" in lines and "jsonclass-lines" not in _done:
        import jsonrpclib.jsonclass as jcl

        mods.append(jcl)
        _done["jsonclass-lines"] = True
    if mods:
        core.instrument_modules(mods)
    return jc, js


def tree_id():
    """A hash of the jsonrpclib sources the check ran against."""
    import hashlib

    h = hashlib.sha1()
    base = os.path.join(REPO, "jsonrpclib")
    for name in sorted(os.listdir(base)):
        if name.endswith(".py"):
            with open(os.path.join(base, name), "rb") as fh:
                h.update(name.encode())
                h.update(fh.read())
    return h.hexdigest()[:16]


_code_cache = {}


def cold_start():
    """
    Re-executes the repository's modules, so that whatever they keep at module or class level is back to its
    import-time state (first-use windows - lazily built caches, templates - exist once per process otherwise),
    then binds the seams again.
    """
    import importlib
    from . import core

    repo()
    names = ["jsonrpclib.config", "jsonrpclib.utils", "jsonrpclib.jsonlib", "jsonrpclib.history", "jsonrpclib.jsonclass",
             "jsonrpclib.jsonrpc", "jsonrpclib.threadpool", "jsonrpclib", "jsonrpclib.SimpleJSONRPCServer"]
    wanted = [k for k in ("pool-lines", "server-lines", "client-lines", "jsonclass-lines") if k in _done]
    for n in names:
        m = sys.modules.get(n)
        if m is not None:
            # what importlib.reload() does - the module's code executed again in its own namespace - with the
            # compiled code kept for the next time (compilation is nine tenths of the cost of a reload)
            code = _code_cache.get(n)
            if code is None:
                with open(m.__file__, "rb") as fh:
                    code = _code_cache[n] = compile(fh.read(), m.__file__, "exec")
            exec(code, m.__dict__)
            core._instrumented.discard(n)
    for k in ("pool", "net", "pool-lines", "server-lines", "client-lines", "jsonclass-lines"):
        _done.pop(k, None)
    lines = []
    if "server-lines" in wanted:
        lines.append("server")
    if "client-lines" in wanted:
        lines.append("client")
    if "jsonclass-lines" in wanted:
        lines.append("jsonclass")
    if "pool-lines" in wanted:
        lines.append("pool")
    if "server-lines" in wanted or "client-lines" in wanted:
        net_seams(lines=tuple(lines))
    else:
        pool_seams(lines="pool" in lines)


class debug_logging(object):
    """
    with debug_logging(flag): the library's loggers at DEBUG level for the duration (as an application in debug mode
    has them), so that the code that builds debug messages runs. Records go to a handler that formats and drops them.
    """

    def __init__(self, on):
        self.on = bool(on)

    def __enter__(self):
        if not self.on:
            return self
        import logging

        class Sink(logging.Handler):
            def createLock(self):
                # no lock of its own: formatting a record may run instrumented library code (__str__ of a Fault), and a
                # simulated thread pre-empted there while holding a *real* lock would block the others for real
                self.lock = None

            def emit(self, record):
                record.getMessage()  # formatting errors are the application's problem: let them show

        self.logger = logging.getLogger("jsonrpclib")
        self.old = (self.logger.level, self.logger.propagate)
        self.handler = Sink()
        self.logger.addHandler(self.handler)
        logging.getLogger().addHandler(self.handler)  # pool loggers are named by the user: keep logging's last resort (stderr) out of it
        self.logger.setLevel(logging.DEBUG)
        self.logger.propagate = False
        self.disabled = logging.root.manager.disable
        logging.disable(logging.NOTSET)  # repo() switches logging off process-wide
        return self

    def __exit__(self, *exc):
        if self.on:
            self.logger.removeHandler(self.handler)
            import logging as _logging

            _logging.getLogger().removeHandler(self.handler)
            self.logger.setLevel(self.old[0])
            self.logger.propagate = self.old[1]
            import logging

            logging.disable(self.disabled)
        return False
