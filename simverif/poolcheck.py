"""
Generator, oracles and shrinking candidates for the thread-pool family
(properties C09, C10, C11).  Oracles are evaluated over the recorded history
(``Sched.log``); sequence numbers are log indices (a total order).
"""

import copy

from . import core, poolsim
from .runner import Violation

INF = float("inf")

# ---------------------------------------------------------------------------
# program generator


def _valid_cfg(rng, big=False):
    mx = rng.choice([1, 1, 2, 2, 3, 4, 5] if big else [1, 1, 2, 2, 3])
    mn = rng.choice([0, 0, 1, mx, rng.randrange(0, mx + 1)])
    qs = rng.choice([0, 0, 0, 0, 1, 2])
    to = rng.choice([0.5, 2.0, 2.0, 8.0])
    return {"max": mx, "min": mn, "qsize": qs, "timeout": to}


WEIRD_MAX = [0, -1, 0.5, "abc", None, "2", 2.5, [], True]
WEIRD_MIN = [-1, -7, 5, 2.5, 0.5, "1", True]
WEIRD_QS = [-1, "x", None, 1.5, "2"]


def gen_cfg(rng, weird, big=False):
    cfg = _valid_cfg(rng, big)
    if weird:
        which = rng.randrange(3)
        if which == 0:
            cfg["max"] = rng.choice(WEIRD_MAX)
        elif which == 1:
            cfg["min"] = rng.choice(WEIRD_MIN)
        else:
            cfg["qsize"] = rng.choice(WEIRD_QS)
    return cfg


def effective(cfg):
    """(max, min, qsize) as the documentation says they are interpreted, or None when rejected."""
    mx = cfg["max"]
    try:
        mx = int(mx)
    except (TypeError, ValueError):
        return None
    if mx < 1:
        return None
    mn = cfg["min"]
    try:
        mn = int(mn)
    except (TypeError, ValueError):
        return "min-not-numeric"
    mn = max(0, min(mn, mx))
    try:
        qs = int(cfg["qsize"])
    except (TypeError, ValueError):
        qs = 0
    return mx, mn, qs


def _task(rng, to, gates=True):
    k = rng.random()
    if k < 0.45:
        op = ["enq", "ret", 0]
    elif k < 0.6:
        op = ["enq", "raise", rng.choice([0, 0, "falsy"])]
    elif k < 0.85 and gates:
        op = ["enq", "gate", rng.randrange(2)]
    else:
        op = ["enq", "sleep", rng.choice([to / 2, to, 1.5 * to, 2 * to, 1.0])]
    if rng.random() < 0.2:
        # the task is not a plain function: functools.partial or a callable object
        op.append(rng.choice(["partial", "object"]))
    return op


def gen_mixed(rng, focus=None, tier="quick"):
    weird = rng.random() < (0.15 if focus == "C10" else 0.03)
    cfg = gen_cfg(rng, weird, tier == "thorough")
    to = cfg["timeout"]
    eff = effective(cfg)
    nctl = rng.randint(2, 9)
    ctl = []
    running = False
    nenq = 0
    wl = {"start": 3, "stop": 2, "enq": 6, "res": 2, "join": 2, "sleep": 2, "open": 1, "clear": 0}
    if focus == "C11":
        wl.update({"stop": 4, "join": 5, "start": 4, "clear": 1})
    big = tier == "thorough"
    if big:
        nctl = rng.randint(2, 14)
    names = sorted(wl)
    weights = [wl[n] for n in names]
    for _ in range(nctl):
        name = rng.choices(names, weights)[0]
        if name == "start":
            ctl.append(["start"])
            running = True
        elif name == "stop":
            ctl.append(["stop"])
            running = False
        elif name == "enq":
            ctl.append(_task(rng, to))
            nenq += 1
        elif name == "res":
            if nenq:
                ctl.append(["res", rng.randrange(nenq), rng.choice([0, to / 2, to, 4 * to])])
                if rng.random() < 0.5:
                    ctl.append(["cb", rng.randrange(nenq), rng.choice(["ret", "ret", "raise", "partial"])])
        elif name == "join":
            if running and rng.random() < 0.5:
                ctl.append(["join", None])
            else:
                ctl.append(["join", rng.choice([0, 0.5, to, 2 * to])])
        elif name == "sleep":
            ctl.append(["sleep", rng.choice([to / 2, to, 2 * to, 3.0])])
        elif name == "clear":
            ctl.append(["clear"])
        else:
            ctl.append(["open", rng.randrange(2)])
    threads = [ctl]
    for _ in range(rng.choice([0, 0, 1, 1, 2, 3] if big else [0, 0, 1, 1, 2])):
        ops = []
        n = 0
        for _ in range(rng.randint(1, 4)):
            k = rng.random()
            if k < 0.5:
                ops.append(_task(rng, to))
                n += 1
            elif k < 0.58 and n:
                ops.append(["cb", rng.randrange(n), rng.choice(["ret", "raise", "partial"])])
            elif k < 0.65 and n:
                ops.append(["res", rng.randrange(n), rng.choice([0, to / 2, to, 4 * to])])
            elif k < 0.8:
                ops.append(["join", rng.choice([0, 0.5, to, 2 * to, 4 * to])])
            elif k < 0.92:
                ops.append(["sleep", rng.choice([to / 2, to, 2 * to])])
            else:
                ops.append(["open", rng.randrange(2)])
        threads.append(ops)
    prog = {"family": "mixed", "cfg": cfg, "threads": threads}
    if focus == "C10" and eff not in (None, "min-not-numeric") and rng.random() < 0.12:
        prog["fail_start"] = sorted(set(rng.randrange(1, 6) for _ in range(rng.randint(1, 2))))
    return prog


def gen_growth(rng, tier="quick"):
    cfg = _valid_cfg(rng, tier == "thorough")
    cfg["qsize"] = rng.choice([0, 0, 0, 4, 1, 2])
    to = cfg["timeout"]
    mx = cfg["max"]
    k = rng.randint(1, mx)
    ctl = []
    style = rng.randrange(4)
    pre = []
    for _ in range(rng.randint(0, 3)):
        pre.append(rng.choice([["enq", "ret", 0], ["enq", "raise", 0], ["enq", "sleep", rng.choice([to / 2, to])]]))
    if style == 0:  # start first
        ctl.append(["start"])
        ctl.extend(pre)
    elif style == 1:  # pre-start enqueue of ordinary tasks
        ctl.extend(pre)
        ctl.append(["start"])
    elif style == 2:  # restart cycle first
        ctl.append(["start"])
        ctl.extend(pre)
        ctl.append(["stop"])
        if rng.random() < 0.5:
            ctl.append(["enq", "ret", 0])
        ctl.append(["start"])
    else:  # let workers retire first
        ctl.append(["start"])
        ctl.extend(pre)
        ctl.append(["sleep", rng.choice([to, 2 * to, 3 * to])])
    if rng.random() < 0.3:
        ctl.append(["sleep", rng.choice([to / 2, to, 2 * to])])
    nh = rng.choice([0, 0, 1, 2])
    split = [rng.randrange(nh + 1) for _ in range(k)]
    threads = [ctl] + [[["wait_go"]] for _ in range(nh)]
    ctl.append(["go"])
    late_start = False
    if style == 1 and rng.random() < 0.5:
        # barrier tasks queued before start as well
        ctl.remove(["start"])
        late_start = True
    for i in range(k):
        op = ["enq", "bar", [0, k]]
        threads[split[i]].append(op)
        if rng.random() < 0.3:
            threads[split[i]].append(rng.choice([["enq", "ret", 0], ["sleep", to / 2], ["enq", "sleep", to / 2]]))
    if late_start:
        ctl.append(["start"])
    prog = {"family": "growth", "cfg": cfg, "threads": threads}
    if style in (0, 3) and rng.random() < 0.3:
        # the first start attempts fail; the pool must grow again afterwards
        prog["fail_start"] = sorted(set(rng.randrange(1, 4) for _ in range(rng.randint(1, 2))))
        while sum(1 for o in ctl[:ctl.index(["go"])] if o[0] == "enq") < 3:
            ctl.insert(1, ["enq", rng.choice(["ret", "ret", "raise"]), 0])
    return prog


def gen_restart(rng, tier="quick"):
    """Lifecycle-structured programs: work, stop, (work while stopped), restart, work."""
    cfg = _valid_cfg(rng, tier == "thorough")
    if rng.random() < 0.5:
        cfg["max"] = 1
        cfg["min"] = rng.choice([0, 1])
    cfg["qsize"] = 0
    to = cfg["timeout"]
    ctl = []
    for _ in range(rng.randint(0, 2)):
        ctl.append(_task(rng, to, gates=False))
    ctl.append(["start"])
    for _ in range(rng.randint(0, 3)):
        ctl.append(_task(rng, to, gates=False))
    if rng.random() < 0.4:
        ctl.append(["sleep", rng.choice([to / 2, to, 2 * to])])
    ctl.append(["stop"])
    for _ in range(rng.randint(0, 3)):
        ctl.append(_task(rng, to, gates=False))
    ctl.append(["start"])
    for _ in range(rng.randint(1, 4)):
        ctl.append(_task(rng, to, gates=False))
    if rng.random() < 0.3:
        ctl.append(["join", rng.choice([None, to])])
    threads = [ctl]
    if rng.random() < 0.3:
        threads.append([_task(rng, to, gates=False) for _ in range(rng.randint(1, 3))])
    return {"family": "mixed", "cfg": cfg, "threads": threads}


def gen_tiny(rng):
    """Two or three threads with one to three operations each: short runs in which a single pre-emption
    placed anywhere is likely to be tried (races between start/stop/enqueue/join themselves)."""
    mx = rng.choice([1, 1, 2])
    cfg = {"max": mx, "min": rng.randrange(0, mx + 1), "qsize": 0, "timeout": rng.choice([0.5, 2.0])}
    to = cfg["timeout"]

    def task():
        return rng.choice([["enq", "ret", 0], ["enq", "ret", 0], ["enq", "raise", 0], ["enq", "sleep", to / 2]])

    ctl = []
    for _ in range(rng.randint(1, 3)):
        k = rng.random()
        if k < 0.4:
            ctl.append(["start"])
        elif k < 0.55:
            ctl.append(["stop"])
        elif k < 0.9:
            ctl.append(task())
        else:
            ctl.append(["join", rng.choice([0, to])])
    if not any(o[0] == "start" for o in ctl):
        ctl.insert(rng.randrange(len(ctl) + 1), ["start"])
    threads = [ctl]
    for _ in range(rng.choice([1, 1, 2])):
        ops = [task()]
        if rng.random() < 0.4:
            ops.append(rng.choice([task(), ["res", 0, rng.choice([0, to])], ["join", rng.choice([0, to])], ["cb", 0, "ret"]]))
        threads.append(ops)
    prog = {"family": "mixed", "cfg": cfg, "threads": threads}
    if rng.random() < 0.012:
        prog["sweep"] = True  # every single pre-emption point of this short program, in the quick tier too
    return prog


def gen_race(rng):
    """
    Lifecycle races, always swept: a controlling thread runs three to five of {start, stop, enqueue, join}
    while a second thread enqueues; executed under every single pre-emption point of the run, so that a window of
    one statement in start()/stop()/enqueue()/join() is met whatever its position.
    """
    if rng.random() < 0.3:
        # the bookkeeping a race around stop()/start() may damage shows when the pool has to grow afterwards: two
        # mutually dependent tasks after the restart
        cfg = {"max": 2, "min": rng.choice([0, 1, 1]), "qsize": 0, "timeout": rng.choice([0.5, 2.0])}
        ctl = [["start"]]
        if rng.random() < 0.5:
            ctl.append(["enq", "ret", 0])
        if rng.random() < 0.35:
            # the public clear() on a running pool while a task is inside its body, instead of a stop/start cycle
            ctl += [["enq", "sleep", 1.0], ["sleep", 0.25], ["clear"], ["enq", "bar", [0, 2]], ["enq", "bar", [0, 2]]]
            return {"family": "growth", "cfg": cfg, "threads": [ctl, [["enq", "ret", 0]]], "sweep": True}
        ctl += [["stop"], ["start"], ["enq", "bar", [0, 2]], ["enq", "bar", [0, 2]]]
        return {"family": "growth", "cfg": cfg, "threads": [ctl, [["enq", "ret", 0]]], "sweep": True}
    mx = rng.choice([1, 1, 2])
    cfg = {"max": mx, "min": rng.randrange(0, mx + 1), "qsize": 0, "timeout": rng.choice([0.5, 2.0])}
    to = cfg["timeout"]
    ctl = []
    for _ in range(rng.randint(3, 5)):
        k = rng.random()
        if k < 0.3:
            ctl.append(["start"])
        elif k < 0.6:
            ctl.append(["stop"])
        elif k < 0.9:
            ctl.append(["enq", rng.choice(["ret", "ret", "raise"]), 0])
        else:
            ctl.append(["join", rng.choice([0, to])])
    if not any(o[0] == "start" for o in ctl[:2]):
        ctl.insert(rng.randrange(2), ["start"])
    other = [["enq", "ret", 0]]
    if rng.random() < 0.3:
        other.append(rng.choice([["enq", "ret", 0], ["res", 0, to], ["join", to]]))
    return {"family": "mixed", "cfg": cfg, "threads": [ctl, other], "sweep": True}


def gen_join_vs_stop(rng):
    """
    An untimed join() in one thread while another stops the pool with a long task still executing. Nothing is enqueued
    after the stop, so the join ends when the task does (an untimed join on a stopped pool that still holds tasks
    legitimately waits for the next start(), which is why untimed joins are generated here only).
    """
    mx = rng.choice([1, 2])
    cfg = {"max": mx, "min": rng.randrange(0, mx + 1), "qsize": 0, "timeout": rng.choice([0.5, 2.0])}
    ctl = [["start"]]
    for _ in range(rng.randint(1, 2)):
        ctl.append(["enq", "sleep", rng.choice([1.5, 3.0, 6.0])])
    ctl.append(["go"])
    if rng.random() < 0.6:
        ctl.append(["sleep", rng.choice([0.25, 1.0])])
    ctl.append(["stop"])
    helper = [["wait_go"], ["join", None]]
    if rng.random() < 0.3:
        helper.insert(1, ["sleep", rng.choice([0.25, 0.5])])
    return {"family": "mixed", "cfg": cfg, "threads": [ctl, helper]}


def gen_zero_timeout(rng):
    """A pool built with timeout=0 (never wait on the queue) and min_threads=0, so that an idle worker retires at once
    instead of polling; a bounded queue that is full while the only worker is busy when stop() is called."""
    cfg = {"max": 1, "min": 0, "qsize": 1, "timeout": 0}
    ctl = [["enq", "gate", 0], ["start"], ["enq", "ret", 0]]
    if rng.random() < 0.5:
        ctl.append(["enq", "ret", 0])  # refused: the queue is full
    ctl.append(["stop"])
    if rng.random() < 0.5:
        ctl += [["start"], ["enq", "ret", 0], ["res", len([o for o in ctl if o[0] == "enq"]), 2.0]]
    return {"family": "mixed", "cfg": cfg, "threads": [ctl]}


def gen_parent(rng):
    """A task that submits a sub-task to the pool it runs on and waits for it: with max_threads >= 2 a second worker
    must be started for the child (submission from a pool thread is submission "from several threads")."""
    mx = rng.choice([2, 2, 3])
    cfg = {"max": mx, "min": rng.randrange(0, 2), "qsize": 0, "timeout": rng.choice([0.5, 2.0])}
    to = cfg["timeout"]
    ctl = [["start"]]
    if rng.random() < 0.4:
        ctl.append(["enq", "ret", 0])
    if rng.random() < 0.3:
        ctl.append(["sleep", rng.choice([to, 2 * to])])
    ctl += [["enq", "parent", 4 * to + 8.0], ["res", len([o for o in ctl if o[0] == "enq"]), 4 * to + 16.0]]
    return {"family": "mixed", "cfg": cfg, "threads": [ctl]}


def gen_abort(rng):
    """
    A task that ends with a BaseException (sys.exit() in a task), alone in the pool: the worker thread that ran it ends
    with it, as any thread does, and the pool's bookkeeping - the queue's count of unfinished tasks, join(), stop(), the
    next start - must survive that. (With other tasks queued behind it the pool would have nobody left to serve them
    until the next enqueue; the properties speak of failing tasks, not of tasks that kill their thread, so such
    histories are not generated.)
    """
    mx = rng.choice([1, 2])
    cfg = {"max": mx, "min": rng.randrange(0, mx + 1), "qsize": 0, "timeout": rng.choice([0.5, 2.0])}
    to = cfg["timeout"]
    ctl = [["start"], ["enq", "abort", 0], rng.choice([["join", to], ["res", 0, to], ["join", 4 * to]]), ["stop"]]
    if rng.random() < 0.6:
        ctl += [["start"], ["enq", "ret", 0], ["res", 1, to]]
    return {"family": "mixed", "cfg": cfg, "threads": [ctl]}


def gen_program(rng, focus=None, tier="quick"):
    pg = {"C09": 0.15, "C10": 0.4, "C11": 0.1}.get(focus, 0.25)
    k = rng.random()
    if k > {"C11": 0.9955}.get(focus, 0.998):  # lifecycle races are what C11 is about: more of them there
        return gen_race(rng)
    if k > {"C11": 0.97}.get(focus, 0.99):
        return gen_join_vs_stop(rng)
    if k > {"C11": 0.96}.get(focus, 0.985):
        return gen_abort(rng)
    if k > {"C10": 0.965}.get(focus, 0.98):
        return gen_parent(rng)
    if k > {"C10": 0.96, "C11": 0.955}.get(focus, 0.978):
        return gen_zero_timeout(rng)
    if k < pg:
        return gen_growth(rng, tier)
    if k < pg + 0.2:
        return gen_restart(rng, tier)
    if k < pg + 0.4:
        return gen_tiny(rng)
    return gen_mixed(rng, focus, tier)


# ---------------------------------------------------------------------------
# history analysis


class Hist(object):
    pass


def parse(program, log):
    h = Hist()
    h.ops = {}
    h.tasks = {}
    h.workers = {}
    h.finals = {}
    h.cbregs = {}
    h.progress = {}
    h.ctor_error = None
    h.end_alive = None
    h.opener_idx = INF
    h.open_all_idx = INF
    h.n = len(log)
    h.start_failures = []
    for idx, ev in enumerate(log):
        tid, kind = ev[1], ev[2]
        if kind == "thread.start_failed":
            h.start_failures.append(idx)
            continue
        if kind == "op.call":
            ti, oi, name, now = ev[3:7]
            h.ops[(ti, oi)] = {"ti": ti, "oi": oi, "name": name, "call": idx, "ret": INF, "out": None,
                               "t0": now, "t1": None}
            if name == "enq":
                h.tasks["t%d.%d" % (ti, oi)] = {"enq_call": idx, "enq_ret": INF, "begins": [], "ends": [],
                                               "args_ok": True, "accepted": False, "by": []}
        elif kind == "op.ret":
            ti, oi, name, out, now = ev[3:8]
            op = h.ops[(ti, oi)]
            op["ret"] = idx
            op["out"] = out
            op["t1"] = now
            if name == "enq":
                t = h.tasks["t%d.%d" % (ti, oi)]
                if out == "accepted":
                    t["enq_ret"] = idx
                    t["accepted"] = True
        elif kind == "task.begin":
            t = h.tasks.get(ev[3])
            if t is not None:
                t["begins"].append(idx)
                t["by"].append(tid)
                if not (ev[4] and ev[5]):
                    t["args_ok"] = False
        elif kind == "task.end":
            t = h.tasks.get(ev[3])
            if t is not None:
                t["ends"].append(idx)
                t.setdefault("end_times", []).append(ev[4] if len(ev) > 4 else None)
        elif kind == "thread.start":
            h.workers[ev[3]] = {"start": idx, "exit": INF, "gets": [], "cur": None}
        elif kind == "thread.exit":
            w = h.workers.get(ev[3])
            if w is not None:
                w["exit"] = idx
        elif kind == "q.get":
            w = h.workers.get(tid)
            if w is not None:
                w["cur"] = idx
        elif kind == "q.got":
            w = h.workers.get(tid)
            if w is not None:
                w["gets"].append((w["cur"], idx, ev[3]))
                w["cur"] = None
        elif kind == "cb.reg":
            h.cbregs[ev[3]] = {"tid": ev[4], "idx": idx, "calls": []}
        elif kind == "cb.call":
            r = h.cbregs.get(ev[3])
            if r is not None:
                r["calls"].append((idx, ev[5], ev[6]))
        elif kind == "final":
            h.finals[ev[3]] = (ev[4], ev[5])
            if ev[3] in h.tasks:
                h.tasks[ev[3]]["final_idx"] = idx
        elif kind == "progress":
            h.progress[ev[3]] = ev[4]
        elif kind == "ctor.error":
            h.ctor_error = ev[3]
        elif kind == "end":
            h.end_alive = ev[3]
        elif kind == "opener.fire":
            h.opener_idx = idx
        elif kind == "open_all":
            h.open_all_idx = idx
    # lifecycle of the controller
    h.stops = []  # effective (call, ret)
    h.starts = []  # effective (call, ret)
    h.clears = []  # clear() on whatever state: discards queued tasks like stop()
    running = False
    for key in sorted(k for k in h.ops if k[0] == 0):
        op = h.ops[key]
        if op["name"] == "start" and not running:
            h.starts.append((op["call"], op["ret"]))
            if op["ret"] != INF or True:
                running = True
        elif op["name"] == "stop" and running:
            h.stops.append((op["call"], op["ret"]))
            running = False
        elif op["name"] == "clear":
            h.clears.append((op["call"], op["ret"]))
    # stopped periods: [0, first start call), [stop ret, next start call)
    h.stopped = []
    prev = 0
    events = sorted([(c, "start") for c, _ in h.starts] + [(r, "stopret") for _, r in h.stops])
    cur_stopped_from = 0
    for pos, what in events:
        if what == "start" and cur_stopped_from is not None:
            h.stopped.append((cur_stopped_from, pos))
            cur_stopped_from = None
        elif what == "stopret":
            cur_stopped_from = pos
    if cur_stopped_from is not None and cur_stopped_from != INF:
        h.stopped.append((cur_stopped_from, INF))
    # running windows for the lower bound: [start ret, next stop call)
    h.windows = []
    sc = sorted(h.stops)
    for c, r in h.starts:
        nxt = INF
        for c2, _ in sc:
            if c2 > c:
                nxt = c2
                break
        if r != INF:
            h.windows.append((r, nxt))
    del prev
    return h


def exempt(h, t):
    """Could a stop() have discarded the task before it began?"""
    # a task that never began is judged when the epilogue looks at its future ("final"):
    # only a stop() called before that point can have discarded it
    b = t["begins"][0] if t["begins"] else t.get("final_idx", INF)
    for sc, sr in h.stops + h.clears:
        if t["enq_call"] < sr and sc < b:
            return True
    return False


def analyse(program, log, verdict, thread_errors=()):
    """Returns the list of Violations in the run."""
    v = []
    h = parse(program, log)
    cfg = program["cfg"]
    eff = effective(cfg)
    faulty = bool(program.get("fail_start"))

    # ---- C10: constructor contract ----------------------------------------
    if eff is None:
        if h.ctor_error != "ValueError":
            v.append(Violation("C10", "ctor", "invalid-max-accepted",
                               "max_threads=%r was not rejected with ValueError (got %r)" % (cfg["max"], h.ctor_error)))
        return v, h
    if eff == "min-not-numeric":
        # rejected or clamped: either is within the documentation; nothing to run
        if h.ctor_error not in (None, "ValueError"):
            v.append(Violation("C10", "ctor", "min-raises-other", "min_threads=%r raised %r" % (cfg["min"], h.ctor_error)))
        if h.ctor_error:
            return v, h
        eff = (int(cfg["max"]), 0, 0)
    if h.ctor_error is not None:
        v.append(Violation("C10", "ctor", "valid-config-rejected",
                           "valid configuration %r rejected with %s" % (cfg, h.ctor_error)))
        return v, h
    mx, mn, _qs = eff

    # ---- abnormal end -------------------------------------------------------
    pending = [op for op in h.ops.values() if op["ret"] == INF]
    if verdict is not None and verdict.kind in ("deadlock", "stall"):
        names = sorted(set(op["name"] for op in pending))
        if any(n in ("stop", "start", "join", "clear") for n in names):
            prop, clause = "C11", "termination"
        else:
            prop, clause = "C09", "termination"
        sig = "%s:%s" % (verdict.kind, "+".join(names) or "none")
        v.append(Violation(prop, clause, sig, "%s with operations pending %s: %s" % (verdict.kind, names, verdict.detail)))
    aborts = any(o[0] == "enq" and o[1] == "abort" for t in program["threads"] for o in t)
    for tid, name, ex in thread_errors:
        if ex.startswith("TaskAbort("):
            continue  # a worker ends with the BaseException of the task it ran, as any thread does: not a crash of the pool
        v.append(Violation("C09", "worker-crash", ex.split("(")[0], "uncaught exception in simulated thread %s: %s" % (name, ex)))

    # ---- C09 ---------------------------------------------------------------
    for tid in sorted(h.tasks):
        t = h.tasks[tid]
        if len(t["begins"]) > 1:
            v.append(Violation("C09", "exactly-once", "twice", "task %s executed %d times" % (tid, len(t["begins"]))))
        if not t["args_ok"]:
            v.append(Violation("C09", "arguments", "changed", "task %s received other arguments than given" % tid))
        for b in t["begins"]:
            for a, z in h.stopped:
                if a < b < z:
                    v.append(Violation("C09", "no-run-when-stopped", "begin-in-stopped-period",
                                       "task %s began while the pool was stopped" % tid))
                    if a > 0:
                        v.append(Violation("C11", "no-task-after-stop", "begin-after-stop-returned",
                                           "task %s began after stop() had returned and before the pool was started again" % tid))
        fin = h.finals.get(tid)
        if fin is not None and t["accepted"]:
            state, done = fin
            ex = exempt(h, t)
            if state == "never" and not ex and faulty and h.start_failures and t["enq_call"] < max(h.start_failures) and \
                    not any(o["accepted"] and o["enq_call"] > max(h.start_failures) for o in h.tasks.values()):
                # thread-start failures (outside the domain of C09): a task whose worker could not be started
                # waits for the next enqueue; with no enqueue after the last failure it may wait for ever
                ex = True
                h.stranded = True
            if state == "never":
                if not ex:
                    sig = "never-run" if not t["begins"] else "ran-but-future-not-done"
                    v.append(Violation("C09", "exactly-once", sig,
                                       "accepted task %s: %s (not stopped before it could begin)" % (tid, sig)))
            elif state.endswith("False") or state.startswith("exc:"):
                v.append(Violation("C09", "faithful-result", "identity",
                                   "future of %s reported %s instead of the task's own outcome" % (tid, state)))
            if t["ends"] and not done:
                v.append(Violation("C09", "faithful-result", "not-done", "task %s finished but done() is False" % tid))
            if not t["begins"] and state != "never":
                v.append(Violation("C09", "faithful-result", "result-without-run", "future of %s has an outcome but the task never ran" % tid))
    for op in h.ops.values():
        if op["name"] == "res" and op["out"] and op["out"].startswith("timeout:"):
            # a time-out is the faithful report only while the task has not finished: once it had finished before the
            # call, result() - with any time-out, 0 included - reports the task's own outcome
            t = h.tasks.get(op["out"].split(":", 1)[1])
            # "finished": the worker that ran it is back at the queue (or gone) - the body's end alone is too early,
            # the worker still has to store the outcome in the future
            fin_at = INF
            if t is not None and t["ends"] and t["by"]:
                for j in range(t["ends"][0] + 1, len(log)):
                    if log[j][1] == t["by"][0] and log[j][2] in ("q.get", "thread.exit"):
                        fin_at = j
                        break
            if t is not None and fin_at < op["call"] and op["ret"] != INF:
                fin = h.finals.get(op["out"].split(":", 1)[1])
                if fin is not None and fin[1]:
                    v.append(Violation("C09", "faithful-result", "timeout-after-completion",
                                       "result() timed out although the task had finished before the call"))
        if op["name"] == "res" and op["out"] and (op["out"].endswith(":False")):
            v.append(Violation("C09", "faithful-result", "identity", "result() gave %s" % op["out"]))
        if op["name"] == "res" and op["out"] and op["out"].startswith("exc:"):
            v.append(Violation("C09", "faithful-result", "result-raises-other", "result() raised %s" % op["out"]))
        if op["name"] == "enq" and op["out"] and op["out"].startswith("exc:") and op["out"] != "exc:Full":
            v.append(Violation("C09", "accept", "enqueue-raises", "enqueue raised %s" % op["out"]))
        if op["name"] in ("start", "stop", "join", "clear") and op["out"] and op["out"].startswith("exc:"):
            v.append(Violation("C11", "lifecycle-raises", "%s:%s" % (op["name"], op["out"]),
                               "%s() raised %s" % (op["name"], op["out"])))
    # C16 inside the pool: callbacks registered on the futures of pooled tasks
    per_task = {}
    for reg, r in h.cbregs.items():
        per_task.setdefault(r["tid"], []).append((r["idx"], reg, r))
    for tid, regs in per_task.items():
        t = h.tasks.get(tid)
        if t is None:
            continue
        regs.sort()
        end = t["ends"][0] if t["ends"] else INF
        fin = h.tasks[tid].get("final_idx", INF)
        for pos, (ridx, reg, r) in enumerate(regs):
            n = len(r["calls"])
            if n > 1:
                v.append(Violation("C16", "callback-once", "twice-in-pool", "callback %s on pooled task %s invoked %d times" % (reg, tid, n)))
            for cidx, ok, extra_ok in r["calls"]:
                if not ok:
                    v.append(Violation("C16", "callback-args", "outcome-in-pool", "callback %s received a wrong (result, exception) pair" % reg))
                if not extra_ok:
                    v.append(Violation("C16", "callback-args", "extra-in-pool", "callback %s received another registration's extra" % reg))
                if cidx < end:
                    v.append(Violation("C16", "callback-once", "before-finish-in-pool", "callback %s invoked before the task body finished" % reg))
            # exactly once for a registration that no other registration could have replaced
            others = [x for x in regs if x[1] != reg]
            if not others and t["ends"] and n == 0 and fin != INF:
                # judged at the end of the run only (the epilogue waited for the future)
                v.append(Violation("C16", "callback-once", "never-in-pool", "callback %s on finished pooled task %s was never invoked" % (reg, tid)))
    if mx == 1:
        ts = [t for t in h.tasks.values() if t["accepted"] and t["begins"]]
        for a in ts:
            for b in ts:
                if a["enq_ret"] < b["enq_call"] and not a["begins"][0] < b["begins"][0]:
                    v.append(Violation("C09", "fifo", "single-worker-order", "single worker started a later task first"))

    # ---- C10: bounds ---------------------------------------------------------
    ev = []
    for t in h.tasks.values():
        for b in t["begins"]:
            ev.append((b, 1))
        for e in t["ends"]:
            ev.append((e, -1))
    ev.sort()
    cur = 0
    h.max_running = 0
    for _, d in ev:
        cur += d
        h.max_running = max(h.max_running, cur)
    if h.max_running > mx:
        v.append(Violation("C10", "upper-bound", "running-tasks", "%d tasks executing with max_threads=%d" % (h.max_running, mx)))
    ev = []
    for w in h.workers.values():
        last = None
        if w["cur"] is not None:
            last = h.n  # inside a queue read when the run ended
        elif w["gets"]:
            last = w["gets"][-1][1]
        if last is not None:
            ev.append((w["start"], 0, 1))
            ev.append((last, 1, -1))
    ev.sort()
    cur = 0
    h.max_serving = 0
    for _, _, d in ev:
        cur += d
        h.max_serving = max(h.max_serving, cur)
    if h.max_serving > mx:
        v.append(Violation("C10", "upper-bound", "serving-workers", "%d workers serving the queue with max_threads=%d" % (h.max_serving, mx)))
    # C11: after stop() + start() the pool behaves as a fresh one: no worker started before the stop still takes tasks
    for sc, sr in h.stops:
        if sr == INF:
            continue
        nxt = [c for c, r in h.starts if c > sr]
        if not nxt:
            continue
        restart = min(nxt)
        for wid, w in h.workers.items():
            if w["start"] < sc and any(g[1] > restart and g[2] == "item" for g in w["gets"]):
                v.append(Violation("C11", "restart-fresh", "old-worker-serves-after-restart",
                                   "a worker started before stop() took a task after the pool was started again"))
                break
    if not faulty and not aborts and mn > 0:  # (a worker that ended with its task's BaseException is replaced at the next enqueue)
        ev = []
        for w in h.workers.values():
            ev.append((w["start"], 1))
            if w["exit"] != INF:
                ev.append((w["exit"], -1))
        ev.sort()
        for a, z in h.windows:
            cur = 0
            low = None
            i = 0
            # alive count at a, then after every event inside the window
            for pos, d in ev:
                if pos <= a:
                    cur += d
            low = cur
            for pos, d in ev:
                if a < pos < z:
                    cur += d
                    low = min(low, cur)
            if low < mn:
                v.append(Violation("C10", "lower-bound", "fewer-than-min",
                                   "only %d worker(s) alive between start() and stop() with min_threads=%d" % (low, mn)))
                if any(sr <= a for sc, sr in h.stops):
                    # the same shortfall in a window that follows a stop(): the restarted pool is not a fresh one
                    v.append(Violation("C11", "restart-fresh", "fewer-than-min-after-restart",
                                       "only %d worker(s) alive after stop() + start() with min_threads=%d" % (low, mn)))
                break

    # ---- C10: growth / progress ------------------------------------------------
    # Under injected thread-start failures the growth rule is demanded again once the faults have stopped: every
    # failing start index has been used up, and the last failure lies before the first dependent task is enqueued.
    # (A start that fails *for* one of the dependent tasks legitimately leaves it waiting for the next enqueue.)
    bars = []
    if program.get("family") == "growth":
        bars = [tid for tid in h.tasks
                if program["threads"][int(tid[1:].split(".")[0])][int(tid.split(".")[1])][1] == "bar"]
    faults_over = True
    if faulty:
        faults_over = bool(bars) and len(h.start_failures) == len(program["fail_start"]) and \
            max(h.start_failures) < min(h.tasks[t]["enq_call"] for t in bars)
    if program.get("family") == "growth" and faults_over:
        k = len(bars)
        needs = set()
        for tid in bars:
            op = program["threads"][int(tid[1:].split(".")[0])][int(tid.split(".")[1])]
            needs.add(op[2][1])
        if k and needs == {k} and all(h.tasks[t]["accepted"] for t in bars) and k <= mx:
            first = min(h.tasks[t]["enq_call"] for t in bars)
            if not any(sc > first for sc, _ in h.stops if sc < h.open_all_idx):
                bad = [t for t in bars if h.progress.get(t) is False]
                if bad:
                    v.append(Violation("C10", "progress", "dependent-tasks-stuck",
                                       "%d mutually dependent tasks (max_threads=%d) did not all start: %s still waiting" % (k, mx, bad)))

    for ev in log:
        if ev[2] == "child" and not ev[4] and mx >= 2 and not any(sc < len(log) for sc, _ in h.stops if sc < h.open_all_idx):
            v.append(Violation("C10", "progress", "child-task-not-started",
                               "a task enqueued by a running task (max_threads=%d) was not started while its parent waited for it" % mx))
            break

    # ---- C11 ---------------------------------------------------------------------
    for op in h.ops.values():
        if op["name"] != "join" or op["ret"] == INF or not op["out"] or not op["out"].startswith("join:"):
            continue
        to = program["threads"][op["ti"]][op["oi"]][1] if op["oi"] < 1000 else None
        if to is not None and op["t1"] - op["t0"] > to + 1.0:  # one virtual second of slack for implementations that poll
            v.append(Violation("C11", "join-timeout", "overrun", "join(%r) took %r virtual seconds" % (to, op["t1"] - op["t0"])))
        if op["out"] not in ("join:True", "join:False"):
            continue
        # judged only on a running pool: started before, no stop overlapping
        running = False
        for c, r in h.starts:
            if r < op["call"]:
                running = True
        for sc, sr in h.stops:
            if sc < op["ret"] and sr > op["call"]:
                running = False
            # a completed stop after the last start
        last_start = max([r for c, r in h.starts if r < op["call"]] or [-1])
        for sc, sr in h.stops:
            if sc > last_start and sc < op["ret"]:
                running = False
        if not running:
            # whatever else happens to the pool meanwhile (a stop() may discard what has not begun), True is never the
            # answer while a task that was enqueued before the call and has begun is still executing
            if op["out"] == "join:True":
                for tid in sorted(h.tasks):
                    t = h.tasks[tid]
                    if t["accepted"] and t["enq_ret"] < op["call"] and t["begins"] and t["begins"][0] < op["ret"] and \
                            (not t["ends"] or t["ends"][0] > op["ret"]) and any(r < op["call"] for c, r in h.starts):
                        v.append(Violation("C11", "join-means-finished", "task-taken-unfinished-during-stop",
                                           "join() returned True while task %s (enqueued before the call, begun) was still executing" % tid))
                        break
            continue
        if op["out"] == "join:False":
            # False is justified by a task that has not finished within the time-out; giving up before the time-out
            # although everything accepted so far finishes inside it is not
            # (judged only when no enqueue overlaps the call: a task that arrives after the waiters were told
            # "all done" legitimately turns the answer into False at once)
            if to is not None and to > 0 and op["t1"] - op["t0"] < to and \
                    not any(t["enq_call"] < op["ret"] and t["enq_ret"] > op["call"] for t in h.tasks.values()):
                mine = [t for t in h.tasks.values() if t["accepted"] and t["enq_call"] < op["ret"]]
                if mine and all(t.get("end_times") and t["end_times"][0] is not None and t["end_times"][0] <= op["t0"] + to
                                for t in mine) and not any(sc < op["ret"] for sc, _ in h.clears if sc > op["call"]):
                    v.append(Violation("C11", "join-timeout", "gave-up-early",
                                       "join(%r) returned False after %r virtual seconds although every task finished within the time-out" % (
                                           to, op["t1"] - op["t0"])))
            continue
        for tid in sorted(h.tasks):
            t = h.tasks[tid]
            if t["accepted"] and t["enq_ret"] < op["call"] and not exempt(h, t):
                if not t["ends"] or t["ends"][0] > op["ret"]:
                    sig = "task-taken-unfinished" if (t["begins"] and t["begins"][0] < op["ret"]) else "task-not-begun"
                    # was it at least taken from the queue?
                    v.append(Violation("C11", "join-means-finished", sig,
                                       "join() returned True while task %s (enqueued before the call) had not finished" % tid))
                    break
    if h.end_alive:
        v.append(Violation("C11", "workers-terminate", "alive-after-stop",
                           "%d worker thread(s) still alive after stop() returned and the grace period" % len(h.end_alive)))
    return v, h


# ---------------------------------------------------------------------------
# scenario object for the generic runner


class PoolScenario(object):
    name = "pool"
    props = ("C09", "C10", "C11", "C16")

    def __init__(self, focus=None, tier="quick"):
        self.focus = focus
        self.tier = tier
        self.args = {"tier": tier, "focus": focus}

    def generate(self, rng):
        return gen_program(rng, self.focus, self.tier)

    def run(self, program, decider, chooser=None):
        s, run, verdict = poolsim.execute(program, decider)
        viol, h = analyse(program, s.log, verdict, s.thread_errors)
        stats = {
            "steps": s.step, "switches": s.nswitch, "simtime": s.now, "verdict": verdict.kind if verdict else None,
            "faults": dict(s.faults), "probes": self.probes(program, h, s),
            "states": self.states(h), "nontrivial": bool(s.nswitch and any(t["begins"] for t in h.tasks.values())),
        }
        if program.get("sweep"):
            # a sweep places its pre-emption inside the program proper, not inside the harness's epilogue
            stats["sweep_until"] = next((e[0] for e in s.log if e[2] == "epilogue"), s.step)
        return s, viol, stats

    def probes(self, program, h, s):
        p = dict(s.probes)
        if getattr(h, "stops", None) is None:
            return p
        for t in h.tasks.values():
            if t["accepted"] and not t["begins"] and exempt(h, t):
                p["task_discarded_by_stop"] = 1
            for sc, sr in h.stops:
                if sc < t["enq_call"] < sr or sc < t["enq_ret"] < sr:
                    p["enqueue_overlapped_stop"] = 1
            if t["begins"] and any(a <= t["enq_call"] < z for a, z in h.stopped):
                p["task_enqueued_while_stopped_then_run"] = 1
        for op in h.ops.values():
            if op["name"] == "join" and op["out"] == "join:True":
                p["join_true"] = 1
            if op["name"] == "join" and op["out"] == "join:False":
                p["join_false"] = 1
            if op["out"] == "exc:Full":
                p["queue_full"] = 1
            if op["out"] and op["out"].startswith("timeout:"):
                p["result_timeout"] = 1
        for w in h.workers.values():
            if any(g[2] == "Empty" for g in w["gets"]):
                p["idle_timeout_expired"] = 1
            if w["exit"] != INF and w["gets"] and w["gets"][-1][2] == "Empty":
                p["worker_retired_after_idle"] = 1
        if len(h.starts) > 1:
            p["restart"] = 1
        for r in h.cbregs.values():
            if r["calls"]:
                p["callback_on_pooled_future_invoked"] = 1
        if getattr(h, "max_running", 0) >= 2:
            p["two_tasks_concurrent"] = 1
        if program.get("family") == "growth" and any(h.progress.values()):
            p["dependent_tasks_progressed"] = 1
        if program.get("fail_start") and s.faults.get("thread_start_failure"):
            p["thread_start_failure_fired"] = 1
            if program.get("family") == "growth" and len(h.start_failures) == len(program["fail_start"]):
                bars = [t for t in h.tasks
                        if program["threads"][int(t[1:].split(".")[0])][int(t.split(".")[1])][1] == "bar"]
                if bars and max(h.start_failures) < min(h.tasks[t]["enq_call"] for t in bars):
                    p["growth_demanded_after_start_failures"] = 1
        return p

    def states(self, h):
        """Abstract pool states visited: (#alive workers, #running tasks, stopped?)."""
        if getattr(h, "stops", None) is None:
            return set()
        ev = []
        for w in h.workers.values():
            ev.append((w["start"], "w", 1))
            if w["exit"] != INF:
                ev.append((w["exit"], "w", -1))
        for t in h.tasks.values():
            for b in t["begins"]:
                ev.append((b, "t", 1))
            for e in t["ends"]:
                ev.append((e, "t", -1))
        for a, z in h.stopped:
            ev.append((a, "s", 1))
            if z != INF:
                ev.append((z, "s", -1))
        ev.sort()
        st = {"w": 0, "t": 0, "s": 0}
        out = set()
        for _, k, d in ev:
            st[k] += d
            out.add((st["w"], st["t"], st["s"]))
        return out

    # -- shrinking -------------------------------------------------------------

    def shrink_candidates(self, program):
        # a smaller program must stay inside what the generators produce: an untimed join() is only generated where the
        # pool has been started (on a pool that was never started it waits for ever, legitimately)
        def nstarts(q):
            return sum(1 for t in q["threads"] for o in t if o[0] == "start")

        untimed = any(o[0] == "join" and o[-1] is None for t in program["threads"] for o in t)
        for q in self._shrink_candidates(program):
            if untimed and nstarts(q) < nstarts(program):
                continue
            yield q

    def _shrink_candidates(self, program):
        p = program
        nthreads = len(p["threads"])
        # drop a helper thread
        for ti in range(nthreads - 1, 0, -1):
            q = copy.deepcopy(p)
            del q["threads"][ti]
            yield q
        # drop one op
        for ti in range(nthreads):
            for oi in range(len(p["threads"][ti]) - 1, -1, -1):
                q = copy.deepcopy(p)
                op = q["threads"][ti].pop(oi)
                if op[0] == "enq":
                    # keep later res references meaningful
                    n = sum(1 for o in p["threads"][ti][:oi] if o[0] == "enq")
                    for o in q["threads"][ti]:
                        if o[0] in ("res", "cb"):
                            if o[1] == n:
                                o[1] = 10 ** 6
                            elif o[1] > n:
                                o[1] -= 1
                q["threads"][ti] = [o for o in q["threads"][ti] if not (o[0] in ("res", "cb") and o[1] >= 10 ** 6)]
                yield q
        # simplify the configuration
        cfg = p["cfg"]
        for key, val in (("qsize", 0), ("min", 0), ("max", 1), ("max", 2), ("timeout", 2.0), ("min", 1)):
            if cfg.get(key) != val:
                q = copy.deepcopy(p)
                q["cfg"][key] = val
                yield q
        if p.get("fail_start"):
            q = copy.deepcopy(p)
            del q["fail_start"]
            yield q
        # simplify tasks and time-outs
        for ti in range(nthreads):
            for oi, op in enumerate(p["threads"][ti]):
                if op[0] == "enq" and op[1] not in ("ret",):
                    if op[1] == "bar":
                        continue
                    q = copy.deepcopy(p)
                    q["threads"][ti][oi] = ["enq", "ret", 0]
                    yield q
                if op[0] in ("res", "join") and op[-1] not in (None, 0.5):
                    q = copy.deepcopy(p)
                    q["threads"][ti][oi][-1] = 0.5
                    yield q

    def size(self, program):
        return sum(len(t) for t in program["threads"]) * 10 + len(program["threads"])
