"""
Simulated ``threading`` primitives on top of core.Sched.

``module()`` returns a module-like object that can be bound in place of the
``threading`` global of any module whose threads the simulator must own.
Every operation is a yield point *before* it takes effect.
"""

import _thread
import types
import threading as _real

from . import core


class Lock(object):
    def __init__(self):
        self._locked = False
        self._waiters = []
        self._owner = None

    def acquire(self, blocking=True, timeout=-1):
        s = core.active()
        s.yield_point("lock.acquire")
        if not self._locked:
            self._locked = True
            self._owner = s.current
            return True
        if not blocking:
            return False
        deadline = None
        if timeout is not None and timeout >= 0:
            deadline = s.now + timeout
        while self._locked:
            t = None if deadline is None else deadline - s.now
            if t is not None and t <= 0:
                return False
            if not s.block(self._waiters, t, "Lock") and self._locked:
                return False
        self._locked = True
        self._owner = s.current
        return True

    def release(self):
        s = core.active()
        if s.aborting:
            raise core.SimAbort()
        if not self._locked:
            raise RuntimeError("release unlocked lock")
        s.yield_point("lock.release")
        self._locked = False
        self._owner = None
        s.wake_all(self._waiters)

    def locked(self):
        return self._locked

    __enter__ = acquire

    def __exit__(self, *exc):
        self.release()

    # used by Condition
    def _release_save(self):
        s = core.active()
        self._locked = False
        self._owner = None
        s.wake_all(self._waiters)
        return None

    def _acquire_restore(self, saved):
        s = core.active()
        while self._locked:
            s.block(self._waiters, None, "Lock(reacquire)")
        self._locked = True
        self._owner = s.current

    def _is_owned(self):
        return self._locked


class RLock(object):
    def __init__(self):
        self._owner = None
        self._count = 0
        self._waiters = []

    def acquire(self, blocking=True, timeout=-1):
        s = core.active()
        me = s.current
        if self._owner is me:
            self._count += 1
            return True
        s.yield_point("rlock.acquire")
        if self._owner is None:
            self._owner = me
            self._count = 1
            return True
        if not blocking:
            return False
        deadline = None
        if timeout is not None and timeout >= 0:
            deadline = s.now + timeout
        while self._owner is not None:
            t = None if deadline is None else deadline - s.now
            if t is not None and t <= 0:
                return False
            if not s.block(self._waiters, t, "RLock") and self._owner is not None:
                return False
        self._owner = me
        self._count = 1
        return True

    def release(self):
        s = core.active()
        if self._owner is not s.current:
            if s.aborting:
                raise core.SimAbort()
            raise RuntimeError("cannot release un-acquired lock")
        if self._count > 1:
            self._count -= 1
            return
        s.yield_point("rlock.release")
        self._count = 0
        self._owner = None
        s.wake_all(self._waiters)

    __enter__ = acquire

    def __exit__(self, *exc):
        self.release()

    def _release_save(self):
        s = core.active()
        saved = self._count
        self._count = 0
        self._owner = None
        s.wake_all(self._waiters)
        return saved

    def _acquire_restore(self, saved):
        s = core.active()
        while self._owner is not None:
            s.block(self._waiters, None, "RLock(reacquire)")
        self._owner = s.current
        self._count = saved

    def _is_owned(self):
        return self._owner is core.active().current


class Condition(object):
    def __init__(self, lock=None):
        if lock is None:
            lock = RLock()
        self._lock = lock
        self._waiters = []
        self.acquire = lock.acquire
        self.release = lock.release

    def __enter__(self):
        return self._lock.acquire()

    def __exit__(self, *exc):
        self._lock.release()

    def wait(self, timeout=None):
        s = core.active()
        if not self._lock._is_owned():
            if s.aborting:
                raise core.SimAbort()
            raise RuntimeError("cannot wait on un-acquired lock")
        s.yield_point("cond.wait")
        saved = self._lock._release_save()
        try:
            return s.block(self._waiters, timeout, "Condition")
        finally:
            if not s.aborting:
                self._lock._acquire_restore(saved)

    def wait_for(self, predicate, timeout=None):
        s = core.active()
        endtime = None
        result = predicate()
        while not result:
            waittime = None
            if timeout is not None:
                if endtime is None:
                    endtime = s.now + timeout
                waittime = endtime - s.now
                if waittime <= 0:
                    break
            self.wait(waittime)
            result = predicate()
        return result

    def notify(self, n=1):
        s = core.active()
        if not self._lock._is_owned():
            if s.aborting:
                raise core.SimAbort()
            raise RuntimeError("cannot notify on un-acquired lock")
        s.yield_point("cond.notify")
        for _ in range(min(n, len(self._waiters))):
            s.wake_one(self._waiters)

    def notify_all(self):
        self.notify(len(self._waiters))


class Event(object):
    def __init__(self):
        self._flag = False
        self._waiters = []

    def is_set(self):
        core.active().yield_point("event.is_set")
        return self._flag

    isSet = is_set

    def set(self):
        s = core.active()
        s.yield_point("event.set")
        self._flag = True
        s.wake_all(self._waiters)

    def clear(self):
        core.active().yield_point("event.clear")
        self._flag = False

    def wait(self, timeout=None):
        s = core.active()
        s.yield_point("event.wait")
        if self._flag:
            return True
        if timeout is not None and timeout <= 0:
            return False
        s.block(self._waiters, timeout, "Event")
        return self._flag


class Semaphore(object):
    def __init__(self, value=1):
        self._cond = Condition(Lock())
        self._value = value

    def acquire(self, blocking=True, timeout=None):
        with self._cond:
            s = core.active()
            endtime = None
            while self._value == 0:
                if not blocking:
                    return False
                t = None
                if timeout is not None:
                    if endtime is None:
                        endtime = s.now + timeout
                    t = endtime - s.now
                    if t <= 0:
                        return False
                self._cond.wait(t)
            self._value -= 1
            return True

    def release(self, n=1):
        with self._cond:
            self._value += n
            self._cond.notify(n)

    __enter__ = acquire

    def __exit__(self, *exc):
        self.release()


class Thread(object):
    _counter = 0

    def __init__(self, group=None, target=None, name=None, args=(), kwargs=None, daemon=None):
        self._target = target
        self._args = args
        self._kwargs = kwargs or {}
        self.name = name or "Thread-sim"
        self.daemon = bool(daemon)
        self._st = None
        self._started = False
        self.role = "thread"

    @property
    def ident(self):
        return None if self._st is None else self._st.tid + 1000

    native_id = ident

    def start(self):
        s = core.active()
        if self._started:
            raise RuntimeError("threads can only be started once")
        s.yield_point("thread.start")
        hook = s.start_fault
        if hook is not None and hook(self):
            s.fault("thread_start_failure")
            s.emit("thread.start_failed")
            raise RuntimeError("can't start new thread")
        self._started = True
        role = s.role_of(self) if s.role_of is not None else self.role
        self._st = s.spawn(self._bootstrap, self.name, role)
        self._st.obj = self
        s.emit("thread.start", self._st.tid, role)

    def _bootstrap(self):
        s = core.active()
        try:
            self.run()
        finally:
            if not s.aborting:
                s.emit("thread.exit", self._st.tid)

    def run(self):
        if self._target is not None:
            self._target(*self._args, **self._kwargs)

    def is_alive(self):
        s = core.active()
        s.yield_point("thread.is_alive")
        return self._st is not None and self._st.state != core.DONE

    isAlive = is_alive

    def join(self, timeout=None):
        s = core.active()
        if self._st is None:
            raise RuntimeError("cannot join thread before it is started")
        if self._st is s.current:
            raise RuntimeError("cannot join current thread")
        s.yield_point("thread.join")
        if self._st.state == core.DONE:
            return
        if timeout is not None and timeout <= 0:
            return
        s.block(self._st.joiners, timeout, "join(%s)" % self.name)

    def getName(self):
        return self.name

    def setName(self, name):
        self.name = name

    def setDaemon(self, flag):
        self.daemon = flag

    def isDaemon(self):
        return self.daemon


def current_thread():
    s = core._ACTIVE
    if s is not None:
        st = s.by_ident.get(_thread.get_ident())
        if st is not None:
            if st.obj is None:
                t = Thread(name=st.name)
                t._st = st
                t._started = True
                st.obj = t
            return st.obj
    return _real.current_thread()


def get_ident():
    s = core._ACTIVE
    if s is not None:
        st = s.by_ident.get(_thread.get_ident())
        if st is not None:
            return st.tid + 1000
    return _thread.get_ident()


_MODULE = None


def module():
    """A module object usable in place of ``threading``."""
    global _MODULE
    if _MODULE is None:
        m = types.ModuleType("simthreading")
        m.Lock = Lock
        m.RLock = RLock
        m.Condition = Condition
        m.Event = Event
        m.Semaphore = Semaphore
        m.BoundedSemaphore = Semaphore
        m.Thread = Thread
        m.current_thread = current_thread
        m.currentThread = current_thread
        m.get_ident = get_ident
        m.main_thread = _real.main_thread
        m.TIMEOUT_MAX = _real.TIMEOUT_MAX
        m.ThreadError = _real.ThreadError
        m.local = _real.local
        _MODULE = m
    return _MODULE
