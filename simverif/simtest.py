"""
Self-test of the simulator itself (./check selftest-sim): the simulated
primitives are the trusted base of every check, so their semantics are
exercised here under many seeded schedules, independently of jsonrpclib.
"""

import random
import socket as _real

from . import core, simthreading, simqueue, simnet


def _run(root, seed, p_sync=0.5, chooser=None, cap=100000):
    s = core.Sched(core.RandomWalk(random.Random(seed), p_sync, 0.0), step_cap=cap, horizon=10000.0,
                   chooser=chooser or core.RandomChooser(random.Random(seed), 0.5))
    out = {}
    verdict = s.run(lambda: root(s, out))
    return s, out, verdict


def _join(s, sts):
    for st in sts:
        s.yield_point("join")
        while st.state != core.DONE:
            s.block(st.joiners, None, "join")


def t_lock_mutual_exclusion(seed):
    T = simthreading.module()

    def root(s, out):
        lock = T.Lock()
        state = {"inside": 0, "max": 0, "n": 0}

        def worker():
            for _ in range(3):
                with lock:
                    state["inside"] += 1
                    state["max"] = max(state["max"], state["inside"])
                    s.yield_point("work")
                    state["n"] += 1
                    state["inside"] -= 1

        _join(s, [s.spawn(worker, "w%d" % i) for i in range(3)])
        out.update(state)

    s, out, v = _run(root, seed)
    assert v is None and out["max"] == 1 and out["n"] == 9, (out, v)


def t_rlock_reentrant(seed):
    T = simthreading.module()

    def root(s, out):
        lock = T.RLock()
        order = []

        def worker(i):
            with lock:
                with lock:
                    order.append(("in", i))
                    s.yield_point("x")
                    order.append(("out", i))

        _join(s, [s.spawn(lambda i=i: worker(i), "w%d" % i) for i in range(3)])
        out["order"] = order

    s, out, v = _run(root, seed)
    o = out["order"]
    assert v is None and all(o[i][0] == "in" and o[i + 1] == ("out", o[i][1]) for i in range(0, 6, 2)), o


def t_condition_and_timeouts(seed):
    T = simthreading.module()

    def root(s, out):
        cond = T.Condition()
        items = []
        got = []

        def consumer():
            with cond:
                while not items:
                    cond.wait()
                got.append(items.pop(0))

        c = s.spawn(consumer, "consumer")
        t0 = s.now
        with cond:
            r = cond.wait(2.5)  # nobody notifies: must time out after exactly 2.5 virtual seconds
        out["timed_out"] = (r, s.now - t0)
        with cond:
            items.append("x")
            cond.notify()
        _join(s, [c])
        out["got"] = got
        ev = T.Event()
        t0 = s.now
        out["event"] = (ev.wait(1.25), s.now - t0)

    s, out, v = _run(root, seed)
    assert v is None and out["timed_out"] == (False, 2.5) and out["got"] == ["x"] and out["event"] == (False, 1.25), out


def t_queue(seed):
    Q = simqueue.module()

    def root(s, out):
        q = Q.Queue(2)
        t0 = s.now
        try:
            q.get(True, 1.5)
            out["empty"] = None
        except Q.Empty:
            out["empty"] = s.now - t0
        q.put(1)
        q.put(2)
        t0 = s.now
        try:
            q.put(3, True, 0.5)
            out["full"] = None
        except Q.Full:
            out["full"] = s.now - t0
        res = []

        def worker():
            while True:
                item = q.get()
                if item is None:
                    q.task_done()
                    return
                s.sleep(1.0)
                res.append(item)
                q.task_done()

        w = s.spawn(worker, "worker")
        q.put(None)
        q.join()
        out["res"] = list(res)
        out["unfinished"] = q.unfinished_tasks
        _join(s, [w])

    s, out, v = _run(root, seed)
    assert v is None and out["empty"] == 1.5 and out["full"] == 0.5 and out["res"] == [1, 2] and out["unfinished"] == 0, out


def t_deadlock_detected(seed):
    T = simthreading.module()

    def root(s, out):
        a, b = T.Lock(), T.Lock()

        def one():
            with a:
                s.yield_point("x")
                with b:
                    pass

        def two():
            with b:
                s.yield_point("x")
                with a:
                    pass

        _join(s, [s.spawn(one, "one"), s.spawn(two, "two")])

    s, out, v = _run(root, seed)
    return v is not None and v.kind == "deadlock"


def t_sockets(seed):
    sm = simnet.module()

    def root(s, out):
        simnet.net().seg_mode = "random"
        srv = sm.socket(_real.AF_INET, _real.SOCK_STREAM)
        srv.bind(("sim", 0))
        srv.listen(5)
        port = srv.getsockname()[1]
        payload = bytes(range(256)) * 20

        def server():
            conn, _ = srv.accept()
            f = conn.makefile("rb")
            data = f.read(len(payload))
            conn.sendall(data[::-1])
            conn.close()  # deferred: the file object is still open
            out["after_close_readable"] = f.read(1)  # EOF only when the client closes its side
            f.close()
            # second connection: closed with unread data -> the peer sees a reset
            conn2, _ = srv.accept()
            conn2.recv(1)
            conn2.close()

        st = s.spawn(server, "server")
        c = sm.create_connection(("sim", port))
        c.sendall(payload)
        buf = b""
        while len(buf) < len(payload):
            chunk = c.recv(65536)
            if not chunk:
                break
            buf += chunk
        out["echo_ok"] = buf == payload[::-1]
        c.shutdown(_real.SHUT_WR)
        out["eof"] = c.recv(10)
        c.close()
        c2 = sm.create_connection(("sim", port))
        c2.sendall(b"0123456789")
        try:
            got = c2.recv(10)
            out["reset"] = "eof" if got == b"" else got
        except ConnectionResetError:
            out["reset"] = "reset"
        c2.close()
        try:
            sm.create_connection(("sim", port + 1))
            out["refused"] = False
        except ConnectionRefusedError:
            out["refused"] = True
        sel = simnet.SimSelector()

        class F(object):
            def fileno(self):
                return srv.fileno()

        sel.register(F(), 1)
        t0 = s.now
        out["select_timeout"] = (sel.select(0.5), s.now - t0)
        _join(s, [st])
        srv.close()
        out["fileno"] = srv.fileno()

    s, out, v = _run(root, seed)
    assert v is None, v
    assert out["echo_ok"] and out["eof"] == b"" and out["after_close_readable"] == b"", out
    assert out["reset"] == "reset" and out["refused"] and out["select_timeout"] == ([], 0.5) and out["fileno"] == -1, out


def t_replay(seed):
    T = simthreading.module()

    def root(s, out):
        lock = T.Lock()
        trail = []

        def worker(i):
            for k in range(3):
                with lock:
                    trail.append((i, k))

        _join(s, [s.spawn(lambda i=i: worker(i), "w%d" % i) for i in range(3)])
        s.emit("trail", list(trail))

    s1, _, _ = _run(root, seed)
    s2 = core.Sched(core.TapeDecider(s1.trace), step_cap=100000)
    s2.run(lambda: root(s2, {}))
    assert s1.digest() == s2.digest(), "replay from the recorded tape diverged"


def main(argv):
    n = int(argv[0]) if argv else 200
    tests = [t_lock_mutual_exclusion, t_rlock_reentrant, t_condition_and_timeouts, t_queue, t_sockets, t_replay]
    bad = 0
    for t in tests:
        try:
            for seed in range(n):
                t(seed)
            print("selftest-sim ok: %-28s %d schedules" % (t.__name__[2:], n))
        except AssertionError as ex:
            bad += 1
            print("HARNESS-ERROR selftest-sim %s failed (seed %d): %s" % (t.__name__[2:], seed, ex))
    found = sum(1 for seed in range(n) if t_deadlock_detected(seed))
    if 0 < found < n:
        print("selftest-sim ok: %-28s lock-order inversion reported as deadlock in %d of %d schedules, completed in the others" % ("deadlock_detected", found, n))
    else:
        bad += 1
        print("HARNESS-ERROR selftest-sim deadlock detection: %d of %d" % (found, n))
    return 2 if bad else 0
