"""Command line of ./check."""

import os
import sys
import time

from . import runner


def _int(name, default):
    try:
        return int(os.environ.get(name, default))
    except ValueError:
        return default


def registry():
    from . import props

    return props.REGISTRY


def scenarios():
    from . import props

    return props.SCENARIOS


def main(argv):
    if not argv or argv[0] in ("-h", "--help", "help"):
        print(__doc__)
        print(sys.modules["__main__"].__doc__)
        return 0
    cmd = argv[0]
    if cmd == "list":
        for k in sorted(registry()):
            print(k)
        return 0
    if cmd == "replay":
        ok, text, s, viol = runner.replay_file(argv[1], scenarios())
        print(text)
        if ok:
            import json
            with open(argv[1]) as fh:
                body = json.load(fh)
            print("VIOLATION property=%s replay=%s" % (body["property"], os.path.abspath(argv[1])))
            return 1
        print("replay did not reproduce the recorded violation")
        return 0
    if cmd == "_history":
        import json

        ok, digest, msg = runner.run_history(argv[1], argv[2], int(argv[3]), json.loads(argv[5]), argv[4])
        print(json.dumps([bool(ok), digest, msg]))
        return 0
    if cmd == "_digests":
        import json
        from . import selftest

        print(json.dumps(selftest.digests(argv[1], int(argv[2]), int(argv[3]), int(argv[4]))))
        return 0
    if cmd == "selftest-sim":
        from . import simtest

        return simtest.main(argv[1:])
    if cmd == "selftest-determinism":
        from . import selftest

        return selftest.determinism(argv[1:])
    reg = registry()
    if cmd not in reg:
        print("unknown check %r; known: %s" % (cmd, " ".join(sorted(reg))))
        return 2
    tier = os.environ.get("VERIF_TIER", "quick")
    if "--tier" in argv:
        tier = argv[argv.index("--tier") + 1]
    if tier not in ("quick", "thorough"):
        tier = "quick"
    seed = _int("VERIF_SEED", 0)
    jobs = _int("VERIF_JOBS", os.cpu_count() or 4)
    spec = reg[cmd]
    budget = spec["budget"][tier]
    if os.environ.get("VERIF_BUDGET_S"):
        budget = float(os.environ["VERIF_BUDGET_S"])
    return spec["run"](tier=tier, seed=seed, budget_s=budget, jobs=jobs)
