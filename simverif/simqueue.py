"""
The real source of the standard library's ``queue`` module, re-executed into a
fresh module whose ``threading`` and ``time`` globals are the simulated ones.
ThreadPool relies on Queue.unfinished_tasks / all_tasks_done / task_done, so
the real Queue logic is what runs; only its primitives are simulated.
"""

import types
import queue as _real_queue

from . import core, simthreading

_MODULE = None


def _now():
    return core.active().now


def module():
    global _MODULE
    if _MODULE is not None:
        return _MODULE
    fname = _real_queue.__file__
    with open(fname, "rb") as fh:
        src = fh.read()
    mod = types.ModuleType("simqueue")
    mod.__file__ = fname
    exec(compile(src, fname, "exec"), mod.__dict__)
    mod.threading = simthreading.module()
    mod.time = _now
    # the C SimpleQueue would use real locks: use the pure Python one
    if hasattr(mod, "_PySimpleQueue"):
        mod.SimpleQueue = mod._PySimpleQueue
    # same exception classes as the real module, so ``except queue.Empty``
    # works whichever module object a caller holds
    assert mod.Empty is _real_queue.Empty
    mod.Full = _real_queue.Full

    orig_get = mod.Queue.get

    def get(self, block=True, timeout=None):
        s = core._ACTIVE
        if s is not None and s.current is not None:
            s.emit("q.get")
            try:
                item = orig_get(self, block, timeout)
            except BaseException as ex:
                if not s.aborting:
                    s.emit("q.got", type(ex).__name__)
                raise
            s.emit("q.got", "item")
            return item
        return orig_get(self, block, timeout)

    mod.Queue.get = get
    _MODULE = mod
    return mod
