"""Registry: property id -> how its check is run."""

from . import runner

REAL_POOL = [
    "jsonrpclib.threadpool (ThreadPool, FutureResult, EventData) - real code, line-level pre-emption",
    "stdlib queue.Queue - real source re-executed on simulated primitives",
]
STUB_POOL = [
    "threading.Lock/RLock/Condition/Event/Thread - simulated (baton scheduler)",
    "time.monotonic - virtual clock",
    "OS scheduler - replaced by the seeded decider",
]


def _pool(prop, focus, rule, required):
    from . import poolcheck

    def run(tier, seed, budget_s, jobs):
        return runner.run_check(
            lambda: poolcheck.PoolScenario(focus, tier), "pool", prop, prop, tier, seed, budget_s, jobs,
            level="exploration", rule=rule,
            assumptions=[
                "small-scope: pools of at most 3 workers, at most 3 client threads, at most ~9 operations per thread",
                "pre-emption at every synchronisation operation and at every source line of threadpool.py; stdlib code between two simulated operations is atomic",
                "time-outs fire only when no simulated thread is runnable",
                "sampling, not exhaustive: a clean batch is evidence, not proof",
            ],
            real_components=REAL_POOL, stub_components=STUB_POOL, required_probes=required)

    return run


RULE_POOL = (
    "each evaluation = one generated client program (JSON, see samples) run once under one seeded schedule "
    "(random walk at sync/line granularity, PCT or run-to-block, drawn per run); distinct = distinct digest of "
    "(context-switch sequence, recorded history); non-trivial = at least one context switch and at least one "
    "task body executed by a pool worker"
)

REGISTRY = {
    "C09": {"budget": {"quick": 45, "thorough": 900},
            "run": _pool("C09", "C09", RULE_POOL,
                         ["task_discarded_by_stop", "enqueue_overlapped_stop", "idle_timeout_expired",
                          "worker_retired_after_idle", "restart", "two_tasks_concurrent",
                          "task_enqueued_while_stopped_then_run"])},
    "C10": {"budget": {"quick": 45, "thorough": 900},
            "run": _pool("C10", "C10", RULE_POOL,
                         ["dependent_tasks_progressed", "thread_start_failure_fired", "idle_timeout_expired",
                          "two_tasks_concurrent", "queue_full", "growth_demanded_after_start_failures"])},
    "C11": {"budget": {"quick": 45, "thorough": 900},
            "run": _pool("C11", "C11", RULE_POOL,
                         ["join_true", "join_false", "restart", "enqueue_overlapped_stop", "result_timeout"])},
}


RULE_FUT = (
    "each evaluation = one generated script (JSON, see samples): three quarters are set_callback/execute/done/result calls from "
    "2-4 simulated threads on one bare FutureResult, one quarter are thread-pool programs whose client threads register "
    "returning / raising / functools.partial callbacks on the futures of pooled tasks (the callback then runs on a pool worker); "
    "each is run once under one seeded schedule with pre-emption at every source line of threadpool.py; "
    "distinct = distinct digest of (context-switch sequence, history); non-trivial = at least one context switch and the task body ran"
)


def _c16_multi(body=None):
    from . import futcheck, poolcheck

    return runner.MultiScenario("future+pool", [(3, "future", futcheck.FutScenario()), (1, "pool", poolcheck.PoolScenario("C16"))])


def _fut():
    from . import futcheck

    def run(tier, seed, budget_s, jobs):
        return runner.run_check(
            _c16_multi, "future+pool", "C16", "C16", tier, seed, budget_s, jobs,
            level="exploration", rule=RULE_FUT,
            assumptions=[
                "small-scope: one future, 2-4 threads, at most ~5 operations per thread",
                "tasks raise Exception subclasses only (execute lets BaseException through by design)",
                "pre-emption at synchronisation operations and source lines, not inside one line",
                "sampling, not exhaustive",
            ],
            real_components=["jsonrpclib.threadpool.FutureResult / EventData - real code, line-level pre-emption"],
            stub_components=STUB_POOL,
            required_probes=["family_future", "family_pool", "callback_on_pooled_future_invoked",
                             "set_callback_overlapped_completion", "callback_registered_after_completion",
                             "callback_registered_before_completion", "raising_callback_invoked", "callback_registered_from_callback", "same_callable_registered_twice_before_completion",
                             "result_timeout", "result_waited_for_completion", "done_false_seen"])

    return run


REGISTRY["C16"] = {"budget": {"quick": 30, "thorough": 600}, "run": _fut()}


def _pool_scn(body):
    from . import poolcheck

    a = (body or {}).get("scenario_args") or {}
    return poolcheck.PoolScenario(a.get("focus"), a.get("tier", "quick"))


def _fut_scn(body):
    from . import futcheck

    return futcheck.FutScenario()


SCENARIOS = {"pool": _pool_scn, "future": _fut_scn, "future+pool": _c16_multi}


def _fam_pool(focus):
    def make(body=None):
        from . import poolcheck

        a = (body or {}).get("scenario_args") or {}
        return poolcheck.PoolScenario(focus, a.get("tier", "quick"))

    return make


def _fam_fut():
    from . import futcheck

    return futcheck.FutScenario()


# check id -> scenario factory, as used by the determinism self-test
FAMILY = {"C09": _fam_pool("C09"), "C10": _fam_pool("C10"), "C11": _fam_pool("C11"), "C16": _c16_multi}


# ---------------------------------------------------------------------------
# full-system checks

REAL_SYS = [
    "jsonrpclib.SimpleJSONRPCServer (dispatcher, request handler, plain and pooled servers) - real code, line-level pre-emption",
    "jsonrpclib.jsonrpc (ServerProxy, MultiCall, Transport, UnixTransport) - real code, line-level pre-emption",
    "jsonrpclib.threadpool - real code",
    "stdlib socketserver, http.server, http.client, xmlrpc.client.Transport, xmlrpc.server dispatcher, socket.SocketIO, io buffering, queue.Queue, json, email header parsing - real code",
]
STUB_SYS = [
    "kernel sockets (TCP, Unix): simverif/simnet.py byte pipes with seeded segmentation and delay",
    "select/poll: SimSelector",
    "threading primitives, time.monotonic/time.time: simulated",
    "fcntl: disabled (module's own 'other systems' branch)",
    "TLS (SafeTransport) never connected",
]
ASSUME_SYS = [
    "small-scope: at most 4 client threads, 4 operations each, request pools of at most 4 workers (default pool of 30 also used)",
    "pre-emption at synchronisation/socket operations and source lines of jsonrpclib modules; stdlib internals between two simulated operations are atomic",
    "time-outs fire only when no simulated thread is runnable",
    "sampling, not exhaustive",
]

RULE_SYS = (
    "each evaluation = one generated system program (server kind/transport/pools, per-client request lists, lifecycle; JSON, see samples) "
    "run once under one seeded schedule and one seeded network behaviour (segmentation, delivery delay); distinct = distinct digest of "
    "(context-switch sequence, history, network choices); non-trivial = at least one context switch and at least one registered "
    "callable executed (or a lifecycle-only history)"
)


def _c12():
    from . import syscheck

    def run(tier, seed, budget_s, jobs):
        return runner.run_check(
            lambda: syscheck.C12Scenario(tier), "system-c12", "C12", "C12", tier, seed, budget_s, jobs,
            level="exploration", rule=RULE_SYS, assumptions=ASSUME_SYS,
            real_components=REAL_SYS, stub_components=STUB_SYS,
            required_probes=["request_with_a_pause_of_seconds_inside", "library_logging_at_debug_level", "several_requests_on_one_connection", "lifecycle_serve", "lifecycle_never-served", "lifecycle_shutdown-inflight", "lifecycle_handle-loop", "lifecycle_serve-twice", "lifecycle_close-while-serving", "lifecycle_stop-rpc",
                             "server_plain", "server_pooled", "server_pooled-user", "family_unix", "family_tcp",
                             "two_methods_executing_at_once", "shutdown_with_request_in_flight", "invalid_body_sent",
                             "client_died_mid_body", "client_aborted_connection", "request_without_length", "shared_request_and_notification_pool",
                             "second_server_closed_while_first_serves", "abstract_unix_address", "server_of_other_family_alive"])

    return run


REGISTRY["C12"] = {"budget": {"quick": 60, "thorough": 1200}, "run": _c12()}


def _c12_scn(body=None):
    from . import syscheck

    a = (body or {}).get("scenario_args") or {}
    return syscheck.C12Scenario(a.get("tier", "quick"))


SCENARIOS["system-c12"] = _c12_scn
FAMILY["C12"] = _c12_scn


def _sys2(prop, cls_name, scn_name, required, budget):
    def factory(body=None):
        from . import syscheck2

        return getattr(syscheck2, cls_name)()

    def run(tier, seed, budget_s, jobs):
        return runner.run_check(
            factory, scn_name, prop, prop, tier, seed, budget_s, jobs,
            level="exploration", rule=RULE_SYS, assumptions=ASSUME_SYS,
            real_components=REAL_SYS, stub_components=STUB_SYS, required_probes=required)

    REGISTRY[prop] = {"budget": budget, "run": run}
    SCENARIOS[scn_name] = factory
    FAMILY[prop] = factory


_sys2("C01", "C01Scenario", "system-c01",
      ["server_plain", "server_pooled", "server_pooled-user", "server_dispatcher", "transport_tcp", "transport_unix",
       "transport_loopback", "server_version_1.0", "server_version_2.0", "client_version_1.0", "client_version_2.0",
       "style_call", "style_batch", "params_keyword", "params_positional", "dotted_name", "unicode_name", "jsonclass_off",
       "short_reads"],
      {"quick": 45, "thorough": 900})
_sys2("C04", "C04Scenario", "system-c04",
      ["server_dispatcher", "server_plain", "server_pooled", "npool_on", "npool_off", "dispatch_default", "dispatch_direct",
       "dispatch_instance", "notifications_on_pool_workers", "batch_with_notifications", "empty_string_id", "null_id"],
      {"quick": 45, "thorough": 900})
_sys2("C13", "C13Scenario", "system-c13",
      ["server_dispatcher", "server_pooled", "server_version_1.0", "server_version_2.0", "two_dispatches_in_flight",
       "mixed_1.0_and_2.0_requests", "dispatch_direct", "dispatch_instance"],
      {"quick": 45, "thorough": 900})


REAL_CLI = [
    "jsonrpclib.jsonrpc (ServerProxy, MultiCall, Transport, UnixTransport, TransportMixIn, JSONTarget) - real code, line-level pre-emption",
    "stdlib http.client, xmlrpc.client.Transport (connection cache, single silent retry, gzip decoding), socket.SocketIO, io buffering, json, gzip - real code",
]
STUB_CLI = [
    "the HTTP server: simverif/peer.py scripted raw peer (records every request verbatim, answers from a fault script)",
    "kernel sockets: simverif/simnet.py",
    "threading primitives and clocks: simulated",
]


def _c19():
    from . import clientcheck

    def run(tier, seed, budget_s, jobs):
        scn = clientcheck.C19Scenario(tier)
        return runner.run_check(
            lambda: scn, "client-c19", "C19", "C19", tier, seed, budget_s, jobs,
            level="fault_enumeration",
            rule=("every fault script up to length %d over the alphabet of the property (scripts ending in a healthy symbol are "
                  "identified with their prefix; 'bodiless' appears as a 204 and as a length-less 502 on a kept-open connection) x {TCP, Unix} x {write to a closed peer seen as EOF, as reset, as EPIPE} is run once "
                  "(run indices 0..%d, exhaustive: true when all were executed); further indices are seeded random scripts of length 1-12 "
                  "with random segmentation and HTTP/1.0 peers under random schedules. distinct = distinct digest of (schedule, history, "
                  "network choices); non-trivial = the script contains at least one symbol" % (scn.maxlen, scn.must_cover - 1)),
            assumptions=["one ServerProxy used sequentially (the property speaks of one proxy)", "len(script)+3 calls per run",
                         "the enumerated part runs under whichever seeded schedule its run index draws; schedules matter little here (client and peer alternate)"],
            real_components=REAL_CLI, stub_components=STUB_CLI,
            required_probes=["sym_" + x for x in clientcheck.peermod.FAULTS] + ["transport_error_raised", "silent_retry_consumed_two_symbols",
                                                                                "write_to_closed_peer", "family_tcp", "family_unix"])

    return run


REGISTRY["C19"] = {"budget": {"quick": 30, "thorough": 900}, "run": _c19()}


def _c19_scn(body=None):
    from . import clientcheck

    tier = "quick"
    if body and body.get("scenario_args"):
        tier = body["scenario_args"].get("tier", "quick")
    return clientcheck.C19Scenario(tier)


SCENARIOS["client-c19"] = _c19_scn
FAMILY["C19"] = _c19_scn


def _c18():
    from . import clientcheck

    def run(tier, seed, budget_s, jobs):
        return runner.run_check(
            clientcheck.C18Scenario, "client-c18", "C18", "C18", tier, seed, budget_s, jobs,
            level="exploration",
            rule=("each evaluation = one generated history (JSON tree, see samples): constructor headers, then nested _additional_headers "
                  "blocks (0-4 deep, names in random letter case incl. the protected ones and User-Agent, string and non-string values) "
                  "containing calls / notifications / batches, calls hit by an injected transport fault (refuse, reset, 4xx/5xx, truncated, "
                  "close before reply) and user exceptions, with try blocks deciding how far an exception travels; run once against the recording "
                  "peer. distinct = distinct digest; non-trivial = at least one block"),
            assumptions=["one definition per header name inside one dictionary (two spellings of one name in the same dict have no 'most recent')",
                         "header values are latin-1 encodable", "sampling, not exhaustive"],
            real_components=REAL_CLI, stub_components=STUB_CLI,
            required_probes=["second_proxy_on_the_same_transport", "call_refused_while_writing_headers", "block_exit_normal", "block_exit_exception", "base_exception_exit", "credentials_in_url", "fault_refuse", "fault_reset", "fault_5xx-len", "fault_truncated",
                             "user_agent_overridden", "nesting_3_or_more", "same_name_in_other_case", "protected_name_pushed", "notify", "batch"])

    return run


REGISTRY["C18"] = {"budget": {"quick": 30, "thorough": 600}, "run": _c18()}


def _c18_scn(body=None):
    from . import clientcheck

    return clientcheck.C18Scenario()


SCENARIOS["client-c18"] = _c18_scn
FAMILY["C18"] = _c18_scn


def _c17():
    from . import clientcheck

    def run(tier, seed, budget_s, jobs):
        return runner.run_check(
            clientcheck.C17Scenario, "client-c17", "C17", "C17", tier, seed, budget_s, jobs,
            level="exploration",
            rule=("each evaluation = one generated case (JSON, see samples) in one of four modes: real client against the recording peer "
                  "(URL path/query, content type, identity/gzip/chunked response whose multi-byte characters straddle the client's 1024-byte reads, "
                  "random segmentation); real plain/pooled server behind the network fed a raw UTF-8 request whose multi-byte characters straddle "
                  "the read-chunk boundary (chunk size clamped by a knob, 'buggify'); CGI handler with captured stdout; unsupported URL schemes. "
                  "A second JSON back-end that emits raw UTF-8 is drawn per run. distinct = distinct digest; non-trivial = client or server mode"),
            assumptions=["the read-chunk knob shadows the builtin min() inside SimpleJSONRPCServer for the run (do_POST is its only user); production uses 10 MiB",
                         "the 'raw-utf8' back-end stands for the optional JSON libraries jsonlib can select (only the standard json module is installed)",
                         "framing, URL and scheme clauses are functions of the input; the simulator contributes the wire observation point, segmentation and the chunk knob"],
            real_components=REAL_CLI + ["jsonrpclib.SimpleJSONRPCServer do_POST / CGI handler - real code"], stub_components=STUB_CLI,
            required_probes=["request_with_a_pause_of_seconds_inside", "unsupported_scheme_with_a_supplied_transport", "transport_supplied", "transport_shared",
                             "mode_client", "mode_server", "mode_cgi", "mode_scheme", "backend_raw_utf8", "encoding_gzip", "encoding_gzip-multi",
                             "encoding_chunked", "unbuffered_request_stream", "empty_request_body", "cgi_body_read_in_pieces", "earlier_call_refused_while_building_headers",
                             "multibyte_response_beyond_first_read", "multibyte_request_with_small_read_chunk", "whitespace_only_read_block", "earlier_exchange_cut_mid_body", "query_string",
                             "percent_escape_in_path", "family_unix", "short_reads"])

    return run


REGISTRY["C17"] = {"budget": {"quick": 30, "thorough": 600}, "run": _c17()}


def _c17_scn(body=None):
    from . import clientcheck

    return clientcheck.C17Scenario()


SCENARIOS["client-c17"] = _c17_scn
FAMILY["C17"] = _c17_scn


def _c02():
    from . import c02check

    def run(tier, seed, budget_s, jobs):
        scn = c02check.C02Scenario(tier)
        return runner.run_check(
            lambda: scn, "c02", "C02", "C02", tier, seed, budget_s, jobs,
            level="fault_enumeration",
            rule=("one evaluation = one server (plain / pooled behind the simulated network, or bare dispatcher) fed up to %d damaged variants of one "
                  "corpus entry and then a healthy probe; damage = the sending peer dies after k body bytes (every k on a character boundary; "
                  "the declared Content-Length stays) or one character is replaced by one of %d characters. Run indices 0..%d enumerate "
                  "the damage positions of the fixed corpus (%s) and are all executed (exhaustive: true for that corpus); further indices "
                  "are seeded corpus entries with a random sample of their damage. coverage.damaged_bodies_judged counts individual bodies. "
                  "distinct = distinct digest; non-trivial = at least one in-domain body judged" % (
                      scn.BATCH, len(c02check.ALPHABET), scn.must_cover - 1,
                      "10 requests + every structural member variant" if tier == "thorough" else "10 requests + a third of the structural member variants; long entries: every truncation and every third replacement position")),
            assumptions=["bodies containing the NaN/Infinity literals are outside the property's domain: counted, not judged",
                         "registered callables return JSON-representable values or raise ordinary exceptions; payloads are free of __jsonclass__",
                         "the corpus is a sample: exhaustive only over damage positions of the listed entries"],
            real_components=REAL_SYS, stub_components=STUB_SYS,
            required_probes=["request_with_a_pause_of_seconds_inside", "library_logging_at_debug_level", "notification_pool_set",
                             "server_plain", "server_pooled", "server_dispatcher", "damage_trunc", "damage_repl", "empty_reply",
                             "parse_error_reply", "invalid_request_reply", "success_reply"])

    return run


REGISTRY["C02"] = {"budget": {"quick": 45, "thorough": 900}, "run": _c02()}


def _c02_scn(body=None):
    from . import c02check

    tier = "quick"
    if body and body.get("scenario_args"):
        tier = body["scenario_args"].get("tier", "quick")
    return c02check.C02Scenario(tier)


SCENARIOS["c02"] = _c02_scn
FAMILY["C02"] = _c02_scn


def make_scenario(check_id, tier="quick"):
    """The scenario object a check uses (for history replays and the self-tests)."""
    return FAMILY[check_id]({"scenario_args": {"tier": tier}})
