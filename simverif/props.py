"""Registry: property id -> how its check is run."""

from . import runner

REAL_POOL = [
    "jsonrpclib.threadpool (ThreadPool, FutureResult, EventData) - real code, line-level pre-emption",
    "stdlib queue.Queue - real source re-executed on simulated primitives",
]
STUB_POOL = [
    "threading.Lock/RLock/Condition/Event/Thread - simulated (baton scheduler)",
    "time.monotonic - virtual clock",
    "OS scheduler - replaced by the seeded decider",
]


def _pool(prop, focus, rule, required):
    from . import poolcheck

    def run(tier, seed, budget_s, jobs):
        return runner.run_check(
            lambda: poolcheck.PoolScenario(focus), "pool", prop, prop, tier, seed, budget_s, jobs,
            level="exploration", rule=rule,
            assumptions=[
                "small-scope: pools of at most 3 workers, at most 3 client threads, at most ~9 operations per thread",
                "pre-emption at every synchronisation operation and at every source line of threadpool.py; stdlib code between two simulated operations is atomic",
                "time-outs fire only when no simulated thread is runnable",
                "sampling, not exhaustive: a clean batch is evidence, not proof",
            ],
            real_components=REAL_POOL, stub_components=STUB_POOL, required_probes=required)

    return run


RULE_POOL = (
    "each evaluation = one generated client program (JSON, see samples) run once under one seeded schedule "
    "(random walk at sync/line granularity, PCT or run-to-block, drawn per run); distinct = distinct digest of "
    "(context-switch sequence, recorded history); non-trivial = at least one context switch and at least one "
    "task body executed by a pool worker"
)

REGISTRY = {
    "C09": {"budget": {"quick": 45, "thorough": 900},
            "run": _pool("C09", "C09", RULE_POOL,
                         ["task_discarded_by_stop", "enqueue_overlapped_stop", "idle_timeout_expired",
                          "worker_retired_after_idle", "restart", "two_tasks_concurrent",
                          "task_enqueued_while_stopped_then_run"])},
    "C10": {"budget": {"quick": 45, "thorough": 900},
            "run": _pool("C10", "C10", RULE_POOL,
                         ["dependent_tasks_progressed", "thread_start_failure_fired", "idle_timeout_expired",
                          "two_tasks_concurrent", "queue_full"])},
    "C11": {"budget": {"quick": 45, "thorough": 900},
            "run": _pool("C11", "C11", RULE_POOL,
                         ["join_true", "join_false", "restart", "enqueue_overlapped_stop", "result_timeout"])},
}


RULE_FUT = (
    "each evaluation = one generated script (JSON, see samples) of set_callback/execute/done/result calls from "
    "2-4 simulated threads on one FutureResult, run once under one seeded schedule with pre-emption at every "
    "source line of threadpool.py; distinct = distinct digest of (context-switch sequence, history); "
    "non-trivial = at least one context switch and the task body ran"
)


def _fut():
    from . import futcheck

    def run(tier, seed, budget_s, jobs):
        return runner.run_check(
            futcheck.FutScenario, "future", "C16", "C16", tier, seed, budget_s, jobs,
            level="exploration", rule=RULE_FUT,
            assumptions=[
                "small-scope: one future, 2-4 threads, at most ~5 operations per thread",
                "tasks raise Exception subclasses only (execute lets BaseException through by design)",
                "pre-emption at synchronisation operations and source lines, not inside one line",
                "sampling, not exhaustive",
            ],
            real_components=["jsonrpclib.threadpool.FutureResult / EventData - real code, line-level pre-emption"],
            stub_components=STUB_POOL,
            required_probes=["set_callback_overlapped_completion", "callback_registered_after_completion",
                             "callback_registered_before_completion", "raising_callback_invoked",
                             "result_timeout", "result_waited_for_completion", "done_false_seen"])

    return run


REGISTRY["C16"] = {"budget": {"quick": 30, "thorough": 600}, "run": _fut()}


def _pool_scn(body):
    from . import poolcheck

    return poolcheck.PoolScenario(None)


def _fut_scn(body):
    from . import futcheck

    return futcheck.FutScenario()


SCENARIOS = {"pool": _pool_scn, "future": _fut_scn}


def _fam_pool(focus):
    def make():
        from . import poolcheck

        return poolcheck.PoolScenario(focus)

    return make


def _fam_fut():
    from . import futcheck

    return futcheck.FutScenario()


# check id -> scenario factory, as used by the determinism self-test
FAMILY = {"C09": _fam_pool("C09"), "C10": _fam_pool("C10"), "C11": _fam_pool("C11"), "C16": _fam_fut}
