"""
Simulated stream sockets (TCP ports and Unix paths) on top of core.Sched.

``module()`` is a module-like object carrying every constant of the real
``socket`` module plus a simulated ``socket`` class and ``create_connection``;
it is bound in place of the ``socket`` global of socketserver, http.client and
jsonrpclib.jsonrpc.  ``makefile`` reuses the standard library's pure Python
``socket.SocketIO`` and ``io`` buffering, including the deferred close that
http.client relies on.

Network nondeterminism (segment sizes, delivery delay, what a write to a
closed peer looks like) is drawn from ``Sched.choose`` and recorded.
"""

import errno
import io
import socket as _real
import types
import weakref

from . import core


class Net(object):
    """Per-run network state; lives in sched.net."""

    def __init__(self, sched):
        self.s = sched
        self.listeners = {}
        self.next_port = 40000
        self.next_fd = 100
        self.by_fd = weakref.WeakValueDictionary()  # a socket nobody references is closed, as in CPython
        self.conns = []  # Connection records (transcripts)
        self.seg_mode = "whole"  # whole | small | random
        self.delay_mode = 0  # 0 none, else max delay in 1/64 s units
        self.select_waiters = []
        self.refuse = set()  # addresses that refuse connections (fault injection)
        self.on_connect = None  # hook(conn) for fault injection
        self.connect_hook = None  # hook(key) -> True to refuse this connection attempt

    def fd(self, sock):
        self.next_fd += 1
        self.by_fd[self.next_fd] = sock
        return self.next_fd


def net():
    s = core.active()
    if s.net is None:
        s.net = Net(s)
    return s.net


class Connection(object):
    """One established connection: two endpoints and a byte transcript."""

    def __init__(self, cid, addr):
        self.cid = cid
        self.addr = addr
        self.c2s = bytearray()
        self.s2c = bytearray()
        self.events = []


class Endpoint(object):
    __slots__ = ("segments", "eof", "reset", "waiters", "peer", "closed", "conn", "is_client", "wr_closed",
                 "poisoned")

    def __init__(self, conn, is_client):
        self.segments = []  # [avail_time, bytes]
        self.eof = False
        self.reset = False
        self.waiters = []
        self.peer = None
        self.closed = False
        self.conn = conn
        self.is_client = is_client
        self.wr_closed = False
        self.poisoned = None  # what the next read reports after a write to a closed peer


class timeout_error(OSError):
    pass


class SimSocket(object):
    """The subset of socket.socket used by socketserver, http.server and http.client."""

    def __init__(self, family=_real.AF_INET, type=_real.SOCK_STREAM, proto=0, fileno=None):
        n = net()
        self.family = family
        self.type = type
        self.proto = proto
        self._net = n
        self._fd = n.fd(self)
        self._closed = False
        self._io_refs = 0
        self._timeout = None
        self._ep = None
        self._listener = None
        self._bound = None
        self._peername = None

    # -- context manager / misc ---------------------------------------------
    def __enter__(self):
        return self

    def __exit__(self, *args):
        if not self._closed:
            self.close()

    def __repr__(self):
        return "<SimSocket fd=%d>" % self._fd

    def fileno(self):
        return -1 if self._closed else self._fd

    def settimeout(self, t):
        self._timeout = t

    def gettimeout(self):
        return self._timeout

    def setblocking(self, flag):
        self._timeout = None if flag else 0.0

    def setsockopt(self, *args):
        if self._closed:
            raise OSError(errno.EBADF, "Bad file descriptor")
        if self.family == _real.AF_UNIX and args and args[0] == _real.IPPROTO_TCP:
            # e.g. TCP_NODELAY on a Unix socket
            raise OSError(errno.EOPNOTSUPP, "Operation not supported")
        if len(args) >= 3 and args[0] == _real.SOL_SOCKET and args[1] == _real.SO_LINGER:
            import struct

            try:
                onoff, linger = struct.unpack("ii", bytes(args[2])[:8])
            except (struct.error, TypeError):
                onoff, linger = 0, 0
            # SO_LINGER on with a zero time-out: close() resets the connection and drops what was not delivered yet
            self._linger0 = bool(onoff) and linger == 0

    def getsockopt(self, *args):
        return 0

    def getsockname(self):
        if self._bound is not None:
            return self._bound
        if self.family == _real.AF_UNIX:
            return ""
        return ("127.0.0.1", 50000 + self._fd)

    def getpeername(self):
        if self._peername is None:
            raise OSError(errno.ENOTCONN, "Transport endpoint is not connected")
        return self._peername

    # -- server side -----------------------------------------------------------
    def _key(self, addr):
        if self.family == _real.AF_UNIX:
            # the kernel resolves "//a/b" like "/a/b"
            return ("unix", "/" + addr.lstrip("/") if addr.startswith("/") else addr)
        return ("tcp", addr[1])

    def bind(self, addr):
        n = self._net
        if self.family != _real.AF_UNIX:
            host, port = addr[0], addr[1]
            if port == 0:
                n.next_port += 1
                port = n.next_port
            addr = (host or "0.0.0.0", port)
        key = self._key(addr)
        if key in n.listeners:
            raise OSError(errno.EADDRINUSE, "Address already in use")
        self._bound = addr
        n.listeners[key] = None  # reserved, not yet listening

    def listen(self, backlog=5):
        self._listener = {"pending": [], "waiters": [], "sock": self}
        self._net.listeners[self._key(self._bound)] = self._listener

    def accept(self):
        s = core.active()
        s.yield_point("sock.accept")
        lst = self._listener
        if lst is None or self._closed:
            raise OSError(errno.EINVAL, "Invalid argument")
        while not lst["pending"]:
            if self._timeout is not None:
                if self._timeout <= 0 or not s.block(lst["waiters"], self._timeout, "accept"):
                    raise _real.timeout("timed out")
            else:
                s.block(lst["waiters"], None, "accept")
            if self._closed:
                raise OSError(errno.EBADF, "Bad file descriptor")
        ep = lst["pending"].pop(0)
        conn = SimSocket(self.family, self.type)
        conn._ep = ep
        if self.family == _real.AF_UNIX:
            peer = ""
        else:
            peer = ("127.0.0.1", 50000 + ep.conn.cid)
        conn._peername = peer
        s.emit("net.accept", ep.conn.cid)
        return conn, peer

    # -- client side -----------------------------------------------------------
    def connect(self, addr):
        s = core.active()
        n = self._net
        s.yield_point("sock.connect")
        key = self._key(addr)
        lst = n.listeners.get(key)
        if key in n.refuse or (n.connect_hook is not None and lst is not None and n.connect_hook(key)):
            lst = None
            s.fault("connection_refused")
        if lst is None or lst["sock"]._closed:
            s.emit("net.refused", str(key))
            if self.family == _real.AF_UNIX and key not in n.listeners:
                raise FileNotFoundError(errno.ENOENT, "No such file or directory")
            raise ConnectionRefusedError(errno.ECONNREFUSED, "Connection refused")
        conn = Connection(len(n.conns), key)
        n.conns.append(conn)
        a = Endpoint(conn, True)
        b = Endpoint(conn, False)
        a.peer = b
        b.peer = a
        self._ep = a
        self._peername = addr
        lst["pending"].append(b)
        s.emit("net.connect", conn.cid, str(key))
        if n.on_connect is not None:
            n.on_connect(conn)
        s.wake_all(lst["waiters"])
        s.wake_all(n.select_waiters)

    def connect_ex(self, addr):
        try:
            self.connect(addr)
            return 0
        except OSError as ex:
            return ex.errno

    # -- data ----------------------------------------------------------------------
    def _check_open(self):
        # close() with makefile() objects alive only marks the socket: the
        # descriptor stays usable until the last of them is closed
        if self._ep is None or self._ep.closed:
            raise OSError(errno.EBADF, "Bad file descriptor")

    def send(self, data, flags=0):
        s = core.active()
        s.yield_point("sock.send")
        self._check_open()
        ep = self._ep
        if ep.wr_closed:
            raise BrokenPipeError(errno.EPIPE, "Broken pipe")
        if ep.reset:
            raise ConnectionResetError(errno.ECONNRESET, "Connection reset by peer")
        data = bytes(data)
        peer = ep.peer
        if peer.closed:
            # the peer is gone: what the writer sees is the network's choice
            k = s.choose(3, "write-to-closed")
            s.fault("write_to_closed_peer")
            if k == 0:
                ep.poisoned = "eof"
                return len(data)
            if k == 1:
                ep.poisoned = "reset"
                return len(data)
            raise BrokenPipeError(errno.EPIPE, "Broken pipe")
        n = self._net
        (ep.conn.c2s if ep.is_client else ep.conn.s2c).extend(data)
        t = s.now
        if n.delay_mode:
            d = s.choose(n.delay_mode + 1, "delay")
            if d:
                t = s.now + d / 64.0
                s.fault("delivery_delay")
        if peer.segments and peer.segments[-1][0] > t:
            t = peer.segments[-1][0]  # in-order delivery
        peer.segments.append([t, data])
        s.wake_all(peer.waiters)
        s.wake_all(n.select_waiters)
        return len(data)

    def sendall(self, data, flags=0):
        data = memoryview(bytes(data))
        while len(data):
            k = self.send(data)
            data = data[k:]

    def _readable(self, ep, now):
        total = 0
        for t, b in ep.segments:
            if t <= now:
                total += len(b)
            else:
                break
        return total

    def recv_into(self, buffer, nbytes=0, flags=0):
        s = core.active()
        s.yield_point("sock.recv")
        self._check_open()
        ep = self._ep
        view = memoryview(buffer).cast("B")
        want = len(view) if not nbytes else min(nbytes, len(view))
        n = self._net
        deadline = None if self._timeout is None else s.now + self._timeout
        while True:
            if ep.closed:
                raise OSError(errno.EBADF, "Bad file descriptor")
            avail = self._readable(ep, s.now)
            if avail:
                break
            if ep.poisoned == "reset" or ep.reset:
                ep.poisoned = None
                raise ConnectionResetError(errno.ECONNRESET, "Connection reset by peer")
            if not ep.segments and (ep.eof or ep.poisoned == "eof"):
                return 0
            wait = None
            if ep.segments:
                wait = ep.segments[0][0] - s.now
            if deadline is not None:
                left = deadline - s.now
                if left <= 0:
                    raise _real.timeout("timed out")
                wait = left if wait is None else min(wait, left)
            s.block(ep.waiters, wait, "recv")
        k = min(avail, want)
        if k > 1 and n.seg_mode != "whole":
            if n.seg_mode == "small":
                k = 1 + s.choose(min(k, 4), "seg")
            else:
                # 0 = everything available
                c = s.choose(min(k, 64), "seg")
                k = k if c == 0 else c
            if k < min(avail, want):
                s.fault("short_read")
        got = 0
        while got < k:
            t, b = ep.segments[0]
            take = min(len(b), k - got)
            view[got:got + take] = b[:take]
            got += take
            if take == len(b):
                ep.segments.pop(0)
            else:
                ep.segments[0][1] = b[take:]
        return got

    def recv(self, bufsize, flags=0):
        buf = bytearray(bufsize)
        k = self.recv_into(buf, bufsize)
        return bytes(buf[:k])

    def shutdown(self, how):
        s = core.active()
        s.yield_point("sock.shutdown")
        if self._ep is None or self._ep.closed:
            raise OSError(errno.ENOTCONN, "Transport endpoint is not connected")
        ep = self._ep
        if how in (_real.SHUT_WR, _real.SHUT_RDWR):
            if not ep.wr_closed:
                ep.wr_closed = True
                ep.peer.eof = True
                s.wake_all(ep.peer.waiters)
                s.wake_all(self._net.select_waiters)

    # -- closing: same reference counting as socket.socket ---------------------------
    def makefile(self, mode="r", buffering=None, *, encoding=None, errors=None, newline=None):
        if not set(mode) <= {"r", "w", "b"}:
            raise ValueError("invalid mode %r (only r, w, b allowed)" % (mode,))
        writing = "w" in mode
        reading = "r" in mode or not writing
        binary = "b" in mode
        rawmode = ""
        if reading:
            rawmode += "r"
        if writing:
            rawmode += "w"
        raw = _real.SocketIO(self, rawmode)
        self._io_refs += 1
        if buffering is None:
            buffering = -1
        if buffering < 0:
            buffering = io.DEFAULT_BUFFER_SIZE
        if buffering == 0:
            if not binary:
                raise ValueError("unbuffered streams must be binary")
            return raw
        if reading and writing:
            buffer = io.BufferedRWPair(raw, raw, buffering)
        elif reading:
            buffer = io.BufferedReader(raw, buffering)
        else:
            buffer = io.BufferedWriter(raw, buffering)
        if binary:
            return buffer
        text = io.TextIOWrapper(buffer, encoding, errors, newline)
        text.mode = mode
        return text

    def _decref_socketios(self):
        if self._io_refs > 0:
            self._io_refs -= 1
        if self._closed:
            self.close()

    def _real_close(self):
        s = core._ACTIVE
        if s is not None and s is not self._net.s:
            s = None
        ep = self._ep
        self._net.by_fd.pop(self._fd, None)
        if self._listener is not None:
            lst = self._listener
            self._net.listeners.pop(self._key(self._bound), None)
            if s is not None and not s.aborting:
                s.emit("net.listener_closed", str(self._key(self._bound)))
                # pending connections are reset
                for p in lst["pending"]:
                    p.closed = True
                    p.peer.reset = True
                    s.wake_all(p.peer.waiters)
                s.wake_all(lst["waiters"])
            self._listener = None
        elif self._bound is not None:
            self._net.listeners.pop(self._key(self._bound), None)
        if ep is not None and not ep.closed:
            ep.closed = True
            if s is not None and not s.aborting:
                s.emit("net.close", ep.conn.cid, "client" if ep.is_client else "server")
                peer = ep.peer
                if getattr(self, "_linger0", False):
                    # abortive close: data still in flight is lost, the peer gets a reset
                    kept = [seg for seg in peer.segments if seg[0] <= s.now]
                    if len(kept) != len(peer.segments):
                        s.fault("abortive_close_dropped_data_in_flight")
                    peer.segments[:] = kept
                    peer.reset = True
                if ep.segments:
                    # unread data at close: the peer gets a reset
                    peer.reset = True
                    s.fault("close_with_unread_data")
                peer.eof = True
                s.wake_all(peer.waiters)
                s.wake_all(ep.waiters)
                s.wake_all(self._net.select_waiters)

    def close(self):
        self._closed = True
        if self._io_refs <= 0:
            self._real_close()

    def detach(self):
        self._closed = True
        return self._fd

    def __del__(self):
        # like socket.socket: an unreferenced socket is closed (reference
        # counting makes this deterministic; the cyclic collector is off
        # during a run)
        try:
            if self._ep is not None and not self._ep.closed or self._listener is not None:
                s = core._ACTIVE
                if s is not None and s is self._net.s and not s.aborting:
                    s.fault("socket_closed_by_refcount")
                    self._closed = True
                    self._io_refs = 0
                    self._real_close()
        except BaseException:
            pass


def create_connection(address, timeout=_real._GLOBAL_DEFAULT_TIMEOUT, source_address=None, all_errors=False):
    sock = SimSocket(_real.AF_INET, _real.SOCK_STREAM)
    try:
        if timeout is not _real._GLOBAL_DEFAULT_TIMEOUT:
            sock.settimeout(timeout)
        sock.connect(address)
        return sock
    except OSError:
        sock.close()
        raise


class SimSelector(object):
    """Stands in for socketserver._ServerSelector (one registered listener)."""

    def __init__(self):
        self._objs = []

    def __enter__(self):
        return self

    def __exit__(self, *args):
        self.close()

    def close(self):
        self._objs = []

    def register(self, fileobj, events, data=None):
        fd = fileobj if isinstance(fileobj, int) else fileobj.fileno()
        if fd < 0:
            # as selectors._fileobj_to_fd does for a closed socket
            raise ValueError("Invalid file descriptor: {}".format(fd))
        self._objs.append(fileobj)
        return fileobj

    def unregister(self, fileobj):
        self._objs.remove(fileobj)

    def _ready(self, n):
        out = []
        for o in self._objs:
            fd = o if isinstance(o, int) else o.fileno()
            sock = n.by_fd.get(fd)
            if sock is None:
                out.append((o, 1))  # closed descriptor: reported readable, as select does for errors
                continue
            if sock._listener is not None:
                if sock._listener["pending"]:
                    out.append((o, 1))
            elif sock._ep is not None:
                ep = sock._ep
                if sock._readable(ep, n.s.now) or ep.eof or ep.reset:
                    out.append((o, 1))
        return out

    def select(self, timeout=None):
        s = core.active()
        n = net()
        s.yield_point("select")
        ready = self._ready(n)
        if ready:
            return ready
        if timeout is not None and timeout <= 0:
            return []
        s.block(n.select_waiters, timeout, "select")
        return self._ready(n)


_MODULE = None


def module():
    global _MODULE
    if _MODULE is None:
        m = types.ModuleType("simsocket")
        for k in dir(_real):
            if not k.startswith("__"):
                setattr(m, k, getattr(_real, k))
        m.socket = SimSocket
        m.SocketType = SimSocket
        m.create_connection = create_connection
        m.getfqdn = lambda name="": name or "sim"
        _MODULE = m
    return _MODULE


class SimTimeModule(object):
    """Stands in for the ``time`` module of http.server (Date header)."""

    EPOCH = 1700000000.0

    def time(self):
        return self.EPOCH + core.active().now

    def monotonic(self):
        return core.active().now

    def sleep(self, d):
        core.active().sleep(d)

    def __getattr__(self, name):
        import time as _t

        return getattr(_t, name)


def sim_monotonic():
    return core.active().now
