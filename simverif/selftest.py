"""
Determinism self-test: every (seed, check, run index) must give the same
event-log digest when run twice in this process and again in fresh
interpreters under other PYTHONHASHSEED values.
"""

import json
import os
import subprocess
import sys

from . import runner

HERE = os.path.dirname(os.path.dirname(os.path.abspath(__file__)))


def digests(check_id, seed, start, count):
    from . import props

    scn = props.make_scenario(check_id)
    out = []
    for i in range(start, start + count):
        for program, desc, s, viol, stats in runner.one_run(scn, check_id, seed, i):
            out.append([s.digest(), sorted(v.cls for v in viol)])
    return out


def determinism(argv):
    from . import props

    n = int(argv[0]) if argv else 150
    checks = argv[1:] or sorted(props.FAMILY)
    seed = int(os.environ.get("VERIF_SEED", "0"))
    bad = 0
    for check_id in checks:
        a = digests(check_id, seed, 0, n)
        b = digests(check_id, seed, 0, n)
        if a != b:
            k = [i for i in range(n) if a[i] != b[i]]
            print("HARNESS-ERROR determinism: %s differs in-process at run indices %s" % (check_id, k[:10]))
            bad += 1
            continue
        # the reference is computed in a fresh interpreter too: this process has run the other checks before, and
        # the seams they installed (more instrumented modules) are not part of a check's own process
        a = None
        for hs in ("0", "1", "987654"):
            env_ = dict(os.environ)
            env_["PYTHONHASHSEED"] = hs
            env_["VERIF_NO_REEXEC"] = "1"
            p = subprocess.run([sys.executable, os.path.join(HERE, "check"), "_digests", check_id, str(seed), "0", str(n)],
                               env=env_, stdout=subprocess.PIPE, stderr=subprocess.PIPE, timeout=1800)
            try:
                c = json.loads(p.stdout.decode().strip().splitlines()[-1])
            except Exception:
                print("HARNESS-ERROR determinism: %s fresh interpreter failed: %s" % (check_id, p.stderr.decode()[-400:]))
                bad += 1
                break
            if a is None:
                a = c
                if len(a) != len(b):
                    print("HARNESS-ERROR determinism: %s fresh interpreter ran %d executions, this process %d" % (check_id, len(a), len(b)))
                    bad += 1
                    break
                continue
            if c != a:
                k = [i for i in range(n) if a[i] != c[i]]
                print("HARNESS-ERROR determinism: %s differs under PYTHONHASHSEED=%s at run indices %s" % (check_id, hs, k[:10]))
                bad += 1
                break
        else:
            print("determinism ok: %s  %d runs x (2 in-process + 3 fresh interpreters under PYTHONHASHSEED 0, 1, 987654)" % (check_id, n))
    return 2 if bad else 0
