"""
Thread-pool scenario family (C09, C10, C11): generated client programs run
against the real ThreadPool on the simulator, and the oracles evaluated over
the recorded history.

A program is plain JSON:

  {"family": "mixed" | "growth",
   "cfg": {"max": .., "min": .., "qsize": .., "timeout": ..},
   "threads": [[op, ...], ...],          # thread 0 is the controller
   "fail_start": [k, ...]}               # optional: k-th Thread.start fails

ops:  ["start"] ["stop"]                       (controller only)
      ["enq", kind, param]   kind in ret|raise|gate|sleep|bar
      ["res", local_task_index, timeout]
      ["join", timeout|null]
      ["sleep", d]  ["open", gate]
"""

from . import core, env

FAR = 64.0  # virtual time at which every gate is opened unconditionally
GRACE = 4.0


class TaskError(Exception):
    pass


class TaskAbort(BaseException):
    """A task that ends the way sys.exit() or an interruption ends it: with an exception that is not an Exception.
    The worker thread that ran it ends with it (as a thread does); the pool's bookkeeping must survive that."""


class EmptyGroupError(TaskError):
    """A legal exception whose truth value is False."""

    def __len__(self):
        return 0


class Gate(object):
    """A virtual barrier the harness can open; waiting is a simulated block."""

    def __init__(self, need=0):
        self.open = False
        self.need = need  # for barriers: number of arrivals that open it
        self.arrived = 0
        self.forced = False
        self.waiters = []

    def arrive_and_wait(self, s):
        self.arrived += 1
        if self.need and self.arrived >= self.need and not self.open:
            self.open = True
            s.wake_all(self.waiters)
        s.yield_point("gate")
        while not self.open:
            s.block(self.waiters, None, "gate")

    def force(self, s):
        if not self.open:
            self.open = True
            self.forced = True
            s.wake_all(self.waiters)


class PoolRun(object):
    def __init__(self, program, sched):
        self.p = program
        self.s = sched
        self.tp = env.pool_seams()
        self.pool = None
        self.gates = {}
        self.futures = {}  # task id -> future
        self.outcomes = {}  # task id -> ("ret", obj) | ("raise", exc)
        self.accepted = []
        self.helpers = []
        self.ctor_error = None
        self.all_open = False

    # -- tasks -----------------------------------------------------------------

    def gate(self, name, need=0):
        g = self.gates.get(name)
        if g is None:
            g = self.gates[name] = Gate(need)
            if self.all_open:
                g.open = True
                g.forced = True
        return g

    def make_task(self, tid, kind, param, shape=None):
        s = self.s
        run = self

        def task(*args, **kwargs):
            s.emit("task.begin", tid, list(args) == [tid, kind], kwargs == {"k": tid})
            try:
                if kind == "gate":
                    run.gate("g%s" % param).arrive_and_wait(s)
                elif kind == "bar":
                    run.gate("b%s" % param[0], param[1]).arrive_and_wait(s)
                elif kind == "sleep":
                    s.sleep(param)
                if kind == "raise":
                    exc = EmptyGroupError(tid) if param == "falsy" else TaskError(tid)
                    run.outcomes[tid] = ("raise", exc)
                    raise exc
                if kind == "parent":
                    # enqueues a child on the pool it runs on and waits for the child's result: needs a second worker
                    child = run.pool.enqueue(lambda: "child of %s" % tid)
                    try:
                        child.result(param)
                        s.emit("child", tid, True)
                    except OSError:
                        s.emit("child", tid, False)
                if kind == "abort":
                    exc = TaskAbort(tid)
                    run.outcomes[tid] = ("raise", exc)
                    raise exc
                obj = [tid]
                run.outcomes[tid] = ("ret", obj)
                return obj
            finally:
                s.emit("task.end", tid, s.now)

        task.__name__ = "task_%s" % tid
        if shape == "partial":
            import functools

            return functools.partial(task)
        if shape == "object":
            class Callable(object):
                def __call__(self, *args, **kwargs):
                    return task(*args, **kwargs)

            return Callable()
        return task

    # -- program interpretation --------------------------------------------------

    def do_op(self, ti, oi, op, local):
        s = self.s
        name = op[0]
        s.emit("op.call", ti, oi, name, s.now)
        out = "ok"
        try:
            if name == "start":
                self.pool.start()
            elif name == "stop":
                self.pool.stop()
            elif name == "clear":
                self.pool.clear()
            elif name == "enq":
                tid = "t%d.%d" % (ti, oi)
                task = self.make_task(tid, op[1], op[2], op[3] if len(op) > 3 else None)
                fut = self.pool.enqueue(task, tid, op[1], k=tid)
                self.futures[tid] = fut
                local.append(tid)
                self.accepted.append(tid)
                out = "accepted"
            elif name == "res":
                if op[1] < len(local):
                    tid = local[op[1]]
                    fut = self.futures[tid]
                    try:
                        val = fut.result(op[2])
                        exp = self.outcomes.get(tid)
                        same = exp is not None and exp[0] == "ret" and exp[1] is val
                        out = "value:%s:%s" % (tid, same)
                    except OSError:
                        out = "timeout:%s" % tid
                    except (TaskError, TaskAbort) as ex:
                        exp = self.outcomes.get(tid)
                        same = exp is not None and exp[0] == "raise" and exp[1] is ex
                        out = "raised:%s:%s" % (tid, same)
                else:
                    out = "skip"
            elif name == "cb":
                # register a callback on the future of an earlier task of this thread
                if op[1] < len(local):
                    tid = local[op[1]]
                    reg = "r%d.%d" % (ti, oi)
                    kind = op[2]
                    run = self

                    def cb(result, exception, extra, reg=reg, tid=tid, kind=kind):
                        exp = run.outcomes.get(tid)
                        ok = exp is not None and ((exp[0] == "ret" and exp[1] is result and exception is None) or
                                                  (exp[0] == "raise" and exp[1] is exception and result is None))
                        s.emit("cb.call", reg, tid, ok, extra == reg)
                        if kind == "raise":
                            raise TaskError("callback " + reg)

                    if kind == "partial":
                        import functools

                        cb = functools.partial(cb)
                    s.emit("cb.reg", reg, tid)
                    self.futures[tid].set_callback(cb, reg)
                    out = "registered:%s" % tid
                else:
                    out = "skip"
            elif name == "join":
                out = "join:%r" % (self.pool.join(op[1]),)
            elif name == "sleep":
                s.sleep(op[1])
            elif name == "open":
                self.gate("g%s" % op[1]).force(s)
            elif name == "go":
                self.gate("go").force(s)
            elif name == "wait_go":
                self.gate("go").arrive_and_wait(s)
        except core.SimAbort:
            raise
        except BaseException as ex:
            out = "exc:%s" % type(ex).__name__
        s.emit("op.ret", ti, oi, name, out, s.now)
        return out

    def thread_body(self, ti):
        local = []
        for oi, op in enumerate(self.p["threads"][ti]):
            self.do_op(ti, oi, op, local)
        return local

    def opener(self):
        s = self.s
        s.sleep(FAR)
        s.emit("opener.fire")
        self.all_open = True
        for g in list(self.gates.values()):
            g.force(s)

    def root(self):
        s = self.s
        p = self.p
        cfg = p["cfg"]
        tp = self.tp
        s.emit("cfg", cfg["max"], cfg["min"], cfg["qsize"], cfg["timeout"])
        try:
            self.pool = tp.ThreadPool(cfg["max"], cfg["min"], cfg["qsize"], cfg["timeout"], logname="pool")
        except ValueError as ex:
            self.ctor_error = ex
            s.emit("ctor.error", "ValueError")
            return
        except BaseException as ex:
            self.ctor_error = ex
            s.emit("ctor.error", type(ex).__name__)
            return
        fails = list(p.get("fail_start") or [])
        if fails:
            counter = [0]

            def hook(thread):
                counter[0] += 1
                return counter[0] in fails

            s.start_fault = hook
        opener = s.spawn(self.opener, "opener", "harness")
        opener  # noqa
        joiners = []
        for ti in range(1, len(p["threads"])):
            st = s.spawn(lambda ti=ti: self.thread_body(ti), "helper%d" % ti, "client")
            joiners.append(st)
        self.thread_body(0)
        # ---- epilogue ----
        for st in joiners:
            s.yield_point("join-helper")
            while st.state != core.DONE:
                s.block(st.joiners, None, "helper")
        s.emit("epilogue")
        self.do_op(0, 1000, ["start"], [])
        bound = 2 * float(cfg["timeout"]) + 8.0
        sleeps = 0.0
        for ops in p["threads"]:
            for op in ops:
                if op[0] == "enq" and op[1] == "sleep":
                    sleeps += op[2]
        if p.get("family") == "growth":
            # progress of the mutually dependent tasks, before anything is forced
            for tid in list(self.accepted):
                fut = self.futures[tid]
                try:
                    fut.result(bound + sleeps)
                    s.emit("progress", tid, True)
                except OSError:
                    s.emit("progress", tid, False)
                except (TaskError, TaskAbort):
                    s.emit("progress", tid, True)
        s.emit("open_all")
        self.all_open = True
        for g in list(self.gates.values()):
            g.force(s)
        for tid in list(self.accepted):
            fut = self.futures[tid]
            done = None
            try:
                val = fut.result(bound + sleeps)
                exp = self.outcomes.get(tid)
                done = "value:%s" % (exp is not None and exp[0] == "ret" and exp[1] is val)
            except OSError:
                done = "never"
            except (TaskError, TaskAbort) as ex:
                exp = self.outcomes.get(tid)
                done = "raised:%s" % (exp is not None and exp[0] == "raise" and exp[1] is ex)
            except core.SimAbort:
                raise
            except BaseException as ex:
                done = "exc:%s" % type(ex).__name__
            s.emit("final", tid, done, bool(fut.done()))
        self.do_op(0, 1001, ["stop"], [])
        s.sleep(float(cfg["timeout"]) + GRACE)
        alive = [t.tid for t in s.threads if t.role == "thread" and t.state != core.DONE]
        s.emit("end", alive)


def execute(program, decider, step_cap=60000):
    """Runs one program under one decider; returns (sched, run, verdict)."""
    s = core.Sched(decider, step_cap=step_cap, horizon=FAR * 8 + 1024)
    run = PoolRun(program, s)
    verdict = s.run(run.root)
    return s, run, verdict
