"""
Deterministic scheduler: real OS threads, one baton, virtual clock.

Exactly one simulated thread runs at any moment.  A thread gives up the baton
only inside this module: at a *yield point* (every operation on a simulated
primitive and, when enabled, every source line of an instrumented module) or
when it blocks.  Which runnable thread runs next is the decision of a
``Decider`` (a search strategy backed by a PRNG, or a recorded tape).  Virtual
time advances only when no thread is runnable.

Nothing in here reads a real clock or draws randomness outside the decider.
"""

import _thread
import hashlib
import math
import sys

import re

RUNNABLE, BLOCKED, DONE = 0, 1, 2
_ADDR = re.compile(r"0x[0-9a-fA-F]{6,}")

_ACTIVE = None  # the Sched of the run in progress (one per process at a time)

INF = float("inf")


class SimAbort(BaseException):
    """Raised inside simulated threads to unwind them at the end of a run."""


class HarnessError(Exception):
    """The simulator itself misbehaved (never a property violation)."""


class Verdict(object):
    """Why a run ended abnormally (deadlock / stall / step cap)."""

    def __init__(self, kind, detail):
        self.kind = kind
        self.detail = detail

    def __repr__(self):
        return "Verdict(%s: %s)" % (self.kind, self.detail)


class SThread(object):
    __slots__ = (
        "tid", "name", "role", "go", "fin", "ready", "state", "deadline",
        "timed_out", "fn", "exc", "joiners", "prio", "obj", "ident",
        "blocked_on", "where",
    )

    def __init__(self, tid, name, role, fn):
        self.tid = tid
        self.name = name
        self.role = role
        self.fn = fn
        self.go = _thread.allocate_lock()
        self.go.acquire()
        self.fin = _thread.allocate_lock()
        self.fin.acquire()
        self.ready = _thread.allocate_lock()
        self.ready.acquire()
        self.state = RUNNABLE
        self.deadline = None
        self.timed_out = False
        self.exc = None
        self.joiners = []
        self.prio = 0
        self.obj = None
        self.ident = None
        self.blocked_on = None
        self.where = None

    def __repr__(self):
        return "<SThread %d %s %s>" % (self.tid, self.name, self.role)


# ---------------------------------------------------------------------------
# Deciders


class Decider(object):
    """
    decide(sched, cur_runnable, n_others, kind) -> int

    When the current thread is runnable: 0 = keep running it, k>=1 = switch to
    others[k-1].  When it is not: k = others[k].  ``others`` is sorted by tid.
    Line events only reach the decider when sched.step >= next_line_step.
    """

    next_line_step = INF

    def start(self, sched):
        pass

    def on_spawn(self, sched, st):
        pass

    def rearm(self, sched):
        pass

    def decide(self, sched, cur_runnable, others, kind):
        return 0


class TapeDecider(Decider):
    """Replays a sparse {step: choice} tape; everything else is choice 0."""

    def __init__(self, tape):
        self.tape = dict((int(k), int(v)) for k, v in tape.items())
        self._keys = sorted(self.tape)
        self._i = 0
        self.next_line_step = self._keys[0] if self._keys else INF

    def rearm(self, sched):
        self._advance(sched.step)

    def _advance(self, step):
        keys = self._keys
        i = self._i
        while i < len(keys) and keys[i] <= step:
            i += 1
        self._i = i
        self.next_line_step = keys[i] if i < len(keys) else INF

    def decide(self, sched, cur_runnable, others, kind):
        step = sched.step
        d = self.tape.get(step, 0)
        if step >= self.next_line_step:
            self._advance(step)
        n = len(others) + (1 if cur_runnable else 0)
        return d % n if n else 0


class RandomWalk(Decider):
    """
    Uniform random walk.  At synchronisation yield points switch with
    probability p_sync; at line yield points with probability p_line
    (implemented as geometric skips so that non-candidates cost a compare).
    """

    def __init__(self, rng, p_sync=0.5, p_line=0.1):
        self.rng = rng
        self.p_sync = p_sync
        self.p_line = p_line
        self._logq = math.log(1.0 - p_line) if 0 < p_line < 1 else 0.0
        self.next_line_step = INF

    def start(self, sched):
        self._arm(sched)

    def rearm(self, sched):
        self._arm(sched)

    def _arm(self, sched):
        p = self.p_line
        if p <= 0:
            self.next_line_step = INF
        elif p >= 1:
            self.next_line_step = sched.step + 1
        else:
            # geometric number of line events to skip
            r = self.rng.random()
            k = 1 + int(math.log(1.0 - r) / self._logq)
            self.next_line_step = sched.step + k

    def decide(self, sched, cur_runnable, others, kind):
        n = len(others)
        if kind == "line":
            self._arm(sched)
            return 1 + self.rng.randrange(n)
        if not cur_runnable:
            return self.rng.randrange(n)
        if self.rng.random() < self.p_sync:
            return 1 + self.rng.randrange(n)
        return 0


class PCT(Decider):
    """
    PCT-style: random distinct priorities (drawn from prio_seed in spawn
    order), the highest-priority runnable thread runs; at each change point (a
    step number) the running thread's priority drops below every other.  With
    no change points this is a calibration run that measures the step count.
    """

    def __init__(self, prio_seed, points):
        import random

        self.rng = random.Random(prio_seed)
        self.points = sorted(points)
        self._pi = 0
        self._low = 0
        self.next_line_step = self.points[0] if self.points else INF

    def on_spawn(self, sched, st):
        st.prio = 1 + self.rng.random()

    def rearm(self, sched):
        self._change(sched)

    def _change(self, sched):
        pts = self.points
        changed = False
        while self._pi < len(pts) and pts[self._pi] <= sched.step:
            self._pi += 1
            changed = True
        self.next_line_step = pts[self._pi] if self._pi < len(pts) else INF
        return changed

    def decide(self, sched, cur_runnable, others, kind):
        cur = sched.current
        if self._change(sched) and cur_runnable:
            self._low -= 1
            cur.prio = self._low
        best = 0 if cur_runnable else -1
        bestp = cur.prio if cur_runnable else None
        for i, t in enumerate(others):
            if bestp is None or t.prio > bestp:
                bestp = t.prio
                best = i + 1 if cur_runnable else i
        return best


# ---------------------------------------------------------------------------


class RandomChooser(object):
    """Network/fault choices: 0 (the benign alternative) with probability p_zero."""

    def __init__(self, rng, p_zero=0.5):
        self.rng = rng
        self.p_zero = p_zero

    def choose(self, n, kind, index):
        if self.rng.random() < self.p_zero:
            return 0
        return self.rng.randrange(n)


class TapeChooser(object):
    def __init__(self, tape):
        self.tape = list(tape)

    def choose(self, n, kind, index):
        return self.tape[index] if index < len(self.tape) else 0


class Sched(object):
    def __init__(self, decider, step_cap=200000, horizon=INF, record=True, chooser=None):
        self.decider = decider
        self.chooser = chooser
        self.net = None
        self.net_trace = []
        self.idgen = 0
        self.threads = []
        self.by_ident = {}
        self.current = None
        self.now = 0.0
        self.step = 0
        self.step_cap = step_cap
        self.horizon = horizon
        self.log = []
        self.trace = {}  # sparse decisions actually taken {step: choice}
        self.nswitch = 0
        self._h = hashlib.blake2b(digest_size=12)
        self.aborting = False
        self.verdict = None
        self.done = _thread.allocate_lock()
        self.done.acquire()
        self._done_released = False
        self.line_enabled = True
        self.thread_errors = []
        self.faults = {}  # fault kind -> fire count
        self.probes = {}
        self.next_line_step = INF
        self.user = None  # scenario-private state
        self.start_fault = None  # callable(thread) -> bool: fail Thread.start
        self.role_of = None  # callable(thread) -> role string
        self.harness_error = None

    # -- bookkeeping helpers -------------------------------------------------

    def emit(self, kind, *data):
        if self.aborting:
            return
        cur = self.current
        self.log.append((self.step, cur.tid if cur is not None else -1, kind) + data)

    def fault(self, kind, n=1):
        self.faults[kind] = self.faults.get(kind, 0) + n

    def probe(self, name, n=1):
        self.probes[name] = self.probes.get(name, 0) + n

    def choose(self, n, kind="net"):
        """A recorded non-scheduling choice in [0, n); 0 is the benign alternative."""
        if n <= 1:
            return 0
        c = self.chooser
        v = c.choose(n, kind, len(self.net_trace)) % n if c is not None else 0
        self.net_trace.append(v)
        return v

    def digest(self):
        h = self._h.copy()
        # memory addresses can reach the history through messages built by the code under test
        # (e.g. the repr of a built-in in an error reply): they are not part of the behaviour
        h.update(_ADDR.sub("0x?", repr(self.log)).encode("utf-8", "backslashreplace"))
        h.update(repr(self.net_trace).encode())
        h.update(repr((self.now, self.step, self.nswitch)).encode())
        return h.hexdigest()

    def me(self):
        return self.by_ident.get(_thread.get_ident())

    # -- thread life cycle ---------------------------------------------------

    def spawn(self, fn, name, role="sim"):
        st = SThread(len(self.threads), name, role, fn)
        self.threads.append(st)
        self.decider.on_spawn(self, st)
        _thread.start_new_thread(self._boot, (st,))
        st.ready.acquire()  # the child has registered its ident
        return st

    def _boot(self, st):
        st.ident = _thread.get_ident()
        self.by_ident[st.ident] = st
        st.ready.release()
        st.go.acquire()
        try:
            if not self.aborting:
                st.fn()
        except SimAbort:
            pass
        except BaseException as ex:  # uncaught in a simulated thread
            st.exc = ex
            if not self.aborting:
                self.thread_errors.append((st.tid, st.name, repr(ex)))
                self.log.append((self.step, st.tid, "thread.uncaught", type(ex).__name__))
        finally:
            try:
                self._exit(st)
            finally:
                st.fin.release()

    def _exit(self, st):
        st.state = DONE
        if self.aborting:
            return
        for j in st.joiners:
            self._wake(j)
        del st.joiners[:]
        try:
            self._leave(st)
        except SimAbort:
            pass

    def _wake(self, st):
        if st.state == BLOCKED:
            st.state = RUNNABLE
            st.deadline = None
            st.timed_out = False

    # -- the core: choosing who runs ------------------------------------------

    def _abort(self, verdict):
        """End the run: release everybody, every later sim op raises."""
        if not self.aborting:
            self.verdict = verdict
            self.aborting = True
            me = _thread.get_ident()
            for t in self.threads:
                if t.state != DONE and t.ident != me:
                    try:
                        t.go.release()
                    except RuntimeError:
                        pass
            self._finish()
        raise SimAbort()

    def _finish(self):
        if not self._done_released:
            self._done_released = True
            self.done.release()

    def _runnable_or_advance(self):
        """Returns the runnable threads, advancing virtual time if needed."""
        threads = self.threads
        while True:
            run = [t for t in threads if t.state == RUNNABLE]
            if run:
                return run
            best = None
            for t in threads:
                if t.state == BLOCKED and t.deadline is not None:
                    if best is None or t.deadline < best:
                        best = t.deadline
            if best is None:
                return None
            if best > self.now:
                self.now = best
            if self.now > self.horizon:
                self._abort(Verdict("stall", "virtual time %r passed the horizon %r" % (self.now, self.horizon)))
            for t in threads:
                if t.state == BLOCKED and t.deadline is not None and t.deadline <= self.now:
                    t.state = RUNNABLE
                    t.deadline = None
                    t.timed_out = True
            self.probes["timer_fired"] = self.probes.get("timer_fired", 0) + 1

    def _describe_blocked(self):
        out = []
        for t in self.threads:
            if t.state == BLOCKED:
                out.append("%s(%s) on %s" % (t.name, t.role, t.blocked_on))
        return "; ".join(out)

    def _leave(self, cur):
        """cur cannot continue (blocked or finished): hand the baton over."""
        run = self._runnable_or_advance()
        if run is None:
            if all(t.state == DONE for t in self.threads):
                self._finish()
                return
            self._abort(Verdict("deadlock", self._describe_blocked()))
        self.step += 1
        if self.step > self.step_cap:
            self._abort(Verdict("step-cap", "more than %d steps" % self.step_cap))
        if len(run) == 1:
            nxt = run[0]
        else:
            if cur.state == RUNNABLE:
                # own timer fired together with others
                others = [t for t in run if t is not cur]
                d = self.decider.decide(self, True, others, "block")
                if d:
                    self.trace[self.step] = d
                nxt = cur if d == 0 else others[d - 1]
            else:
                d = self.decider.decide(self, False, run, "block")
                if d:
                    self.trace[self.step] = d
                nxt = run[d]
        if nxt is cur:
            return
        self._handoff(cur, nxt)

    def _handoff(self, cur, nxt):
        self.nswitch += 1
        self._h.update(b"%d:%d>%d;" % (self.step, cur.tid, nxt.tid))
        self.current = nxt
        nxt.go.release()
        if cur.state != DONE:
            cur.go.acquire()
            if self.aborting:
                raise SimAbort()

    def yield_point(self, kind="sync"):
        """A pre-emption opportunity for the running thread."""
        if self.aborting:
            raise SimAbort()
        self.step += 1
        if self.step > self.step_cap:
            self._abort(Verdict("step-cap", "more than %d steps" % self.step_cap))
        cur = self.current
        threads = self.threads
        others = None
        for t in threads:
            if t.state == RUNNABLE and t is not cur:
                if others is None:
                    others = [t]
                else:
                    others.append(t)
        if others is None:
            return
        d = self.decider.decide(self, True, others, kind)
        if d:
            self.trace[self.step] = d
            self._handoff(cur, others[d - 1])

    def block(self, waitlist, timeout=None, what=None):
        """
        Blocks the running thread on ``waitlist`` (a list it is appended to;
        the waker removes it and calls wake()).  Returns True when woken,
        False when the virtual time-out expired.
        """
        if self.aborting:
            raise SimAbort()
        cur = self.current
        if timeout is not None and timeout < 0:
            timeout = 0
        cur.state = BLOCKED
        cur.deadline = None if timeout is None else self.now + timeout
        cur.timed_out = False
        cur.blocked_on = what
        waitlist.append(cur)
        self._leave(cur)
        cur.blocked_on = None
        if cur.timed_out:
            cur.timed_out = False
            try:
                waitlist.remove(cur)
            except ValueError:
                pass
            return False
        return True

    def wake_all(self, waitlist):
        for t in waitlist:
            self._wake(t)
        del waitlist[:]

    def wake_one(self, waitlist):
        if waitlist:
            self._wake(waitlist.pop(0))

    def sleep(self, d):
        self.yield_point("sleep")
        if d > 0:
            self.block([], d, "sleep")

    # -- running ---------------------------------------------------------------

    def run(self, root_fn, wall_limit=60.0):
        """
        Runs root_fn as the first simulated thread; returns when every
        simulated thread has finished or the run was aborted.
        """
        global _ACTIVE
        if _ACTIVE is not None:
            raise HarnessError("nested simulation")
        import gc

        gc_was = gc.isenabled()
        gc.disable()
        _ACTIVE = self
        try:
            self.decider.start(self)
            root = self.spawn(root_fn, "root", "root")
            self.current = root
            root.go.release()
            if not self.done.acquire(True, wall_limit):
                # a simulated thread is stuck on something real
                self.harness_error = "wall-clock watchdog expired (%ss): %s" % (
                    wall_limit, self._stacks())
                self.aborting = True
                for t in self.threads:
                    try:
                        t.go.release()
                    except RuntimeError:
                        pass
            for t in self.threads:
                if not t.fin.acquire(True, 10.0):
                    if self.harness_error is None:
                        self.harness_error = "thread %r did not unwind: %s" % (t, self._stacks())
        finally:
            _ACTIVE = None
            if gc_was:
                gc.enable()
        if self.harness_error:
            raise HarnessError(self.harness_error)
        return self.verdict

    def _stacks(self):
        import traceback
        frames = sys._current_frames()
        out = []
        for t in self.threads:
            f = frames.get(t.ident)
            if f is not None and t.state != DONE:
                out.append("%s: %s" % (t.name, "".join(traceback.format_stack(f)[-4:])))
        return "\n".join(out)


def active():
    s = _ACTIVE
    if s is None:
        raise HarnessError("simulated primitive used outside a simulation run")
    return s


# ---------------------------------------------------------------------------
# Line-level pre-emption through sys.monitoring (Python >= 3.12)

_TOOL = None
_instrumented = set()


def _line_cb(code, line):
    s = _ACTIVE
    if s is None or not s.line_enabled:
        return
    if s.aborting:
        if _thread.get_ident() in s.by_ident:
            raise SimAbort()
        return
    step = s.step + 1
    if step < s.decider.next_line_step and step <= s.step_cap:
        s.step = step
        return
    # slow path: a decision is due
    cur = s.current
    if cur is None or cur.ident != _thread.get_ident():
        return
    s.step = step
    if step > s.step_cap:
        s._abort(Verdict("step-cap", "more than %d steps" % s.step_cap))
    others = [t for t in s.threads if t.state == RUNNABLE and t is not cur]
    if not others:
        # nobody to switch to; let the decider re-arm
        s.decider.rearm(s)
        return
    d = s.decider.decide(s, True, others, "line")
    if d:
        s.trace[step] = d
        s._handoff(cur, others[d - 1])


def _walk_code(code, out):
    out.append(code)
    for c in code.co_consts:
        if hasattr(c, "co_code"):
            _walk_code(c, out)


def instrument_modules(modules):
    """Enable line yield points in every function of the given modules."""
    global _TOOL
    mon = sys.monitoring
    if _TOOL is None:
        _TOOL = 4
        mon.use_tool_id(_TOOL, "simverif")
        mon.register_callback(_TOOL, mon.events.LINE, _line_cb)
    import inspect
    for mod in modules:
        if mod.__name__ in _instrumented:
            continue
        _instrumented.add(mod.__name__)
        fname = mod.__file__
        # the module's live code objects: functions and methods
        codes = []
        seen = set()

        def visit(obj):
            if id(obj) in seen:
                return
            seen.add(id(obj))
            if inspect.isfunction(obj):
                if obj.__code__.co_filename == fname:
                    _walk_code(obj.__code__, codes)
            elif inspect.isclass(obj):
                if getattr(obj, "__module__", None) != mod.__name__:
                    return
                for v in list(vars(obj).values()):
                    if isinstance(v, (staticmethod, classmethod)):
                        v = v.__func__
                    if isinstance(v, property):
                        for f in (v.fget, v.fset, v.fdel):
                            if f is not None:
                                visit(f)
                    else:
                        visit(v)
            elif hasattr(obj, "__wrapped__"):
                visit(obj.__wrapped__)

        for v in list(vars(mod).values()):
            visit(v)
        for c in codes:
            mon.set_local_events(_TOOL, c, mon.events.LINE)


def instrument_code(code):
    """Line yield points for one extra code object (e.g. nested closures)."""
    mon = sys.monitoring
    out = []
    _walk_code(code, out)
    for c in out:
        mon.set_local_events(_TOOL, c, mon.events.LINE)
