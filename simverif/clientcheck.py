"""
Client-side properties against the scripted raw peer:
  C19  transport faults are contained and the proxy recovers (fault enumeration)
"""

import copy
import itertools

from . import core, env, peer as peermod, simnet
from .runner import Violation

INF = float("inf")


class PolicyChooser(object):
    """Fixes some kinds of network choice, delegates the others."""

    def __init__(self, inner, fixed):
        self.inner = inner
        self.fixed = fixed

    def choose(self, n, kind, index):
        if kind in self.fixed:
            return self.fixed[kind] % n
        if self.inner is None:
            return 0
        return self.inner.choose(n, kind, index)


# ---------------------------------------------------------------------------
# C19


def c19_scripts(maxlen):
    out = [[]]
    for n in range(1, maxlen + 1):
        for tup in itertools.product(peermod.FAULTS + ["ok"], repeat=n):
            if tup[-1] == "ok":
                continue  # a trailing healthy symbol is the same script as the shorter one
            out.append(list(tup))
    return out


class C19Run(object):
    def __init__(self, program, sched):
        self.p = program
        self.s = sched
        self.jc, self.js = env.net_seams()

    def root(self):
        s = self.s
        p = self.p
        n = simnet.net()
        n.seg_mode = p.get("seg", "whole")
        pr = peermod.Peer(s, p["family"], p["script"], http10=p.get("http10", False), close_delimited=p.get("close_delimited", False))
        if p.get("close_delimited"):
            s.probe("healthy_replies_delimited_by_close")
        pr.start()
        self.peer = pr
        url = pr.url_base + ("/" if p["family"] == "tcp" else "")
        s.emit("url", url)
        # the proxy's own configuration: protocol version, verbosity, and which of the calls are notifications
        variant = p.get("variant", 0)
        kwargs = {}
        if variant == 1:
            kwargs["version"] = 1.0
        elif variant == 2:
            kwargs["verbose"] = 1
        elif variant == 3:
            kwargs["version"] = 1.0
        proxy = self.jc.ServerProxy(url, **kwargs)
        s.probe("proxy_variant_%d" % variant)
        ncalls = p.get("ncalls", len(p["script"]) + 3)
        for i in range(ncalls):
            tok = "t%d" % i
            before = pr.pos
            notify = variant == 3 and i % 2 == 0 or variant == 2 and i % 3 == 1
            s.emit("call", i, notify)
            try:
                if notify:
                    val = proxy._notify.echo(tok)
                    out = ["value", tok if val is None else ["notification-returned", val]]
                else:
                    val = proxy.echo(tok)
                    out = ["value", val]
            except core.SimAbort:
                raise
            except self.jc.TransportError as ex:
                out = ["transport-error", ex.errcode, ex.url]
            except BaseException as ex:
                out = ["exc", type(ex).__name__]
            s.emit("outcome", i, out, before, pr.pos)
        try:
            proxy("close")()
        except core.SimAbort:
            raise
        except BaseException:
            pass
        pr.shutdown()


def analyse_c19(program, s, run, verdict):
    import json
    import re

    v = []
    if verdict is not None:
        v.append(Violation("C19", "termination", verdict.kind, "%s during the calls: %s" % (verdict.kind, verdict.detail)))
        return v
    for tid, name, ex in s.thread_errors:
        v.append(Violation("C19", "thread-crash", ex.split("(")[0], "uncaught exception in simulated thread %s: %s" % (name, ex)))
    script = program["script"]
    pr = run.peer
    outcomes = {}
    window = {}
    notif = {}
    cur = None
    refused = {}  # call -> number of refuse symbols consumed inside its window
    exhausted_at = -1 if not script else None  # log index at which the last script symbol was consumed
    expected_url = None
    for idx, ev in enumerate(s.log):
        kind = ev[2]
        if kind == "url":
            u = ev[3]
            expected_url = "./" if u.startswith("unix+http://") else u[len("http://"):]
        elif kind == "call":
            cur = ev[3]
            window[cur] = [idx, None]
            notif[cur] = bool(ev[4]) if len(ev) > 4 else False
        elif kind == "outcome":
            outcomes[ev[3]] = ev[4]
            window[ev[3]][1] = idx
            cur = None
        elif kind == "peer.symbol":
            if ev[4] is None and cur is not None:
                refused[cur] = refused.get(cur, 0) + 1
            if ev[5]:
                exhausted_at = idx
    # replies by token: the symbols applied to the requests that carried the call's token
    by_token = {}
    for req in pr.requests:
        m = re.search(rb'"t([0-9]+)"', req["body"])
        if m and "symbol" in req:
            by_token.setdefault(int(m.group(1)), []).append(req["symbol"])
    STATUS = {"4xx-len": 404, "5xx-len": 500, "5xx-nolen-close": 599, "bodiless": 204, "bodiless-open": 502}
    for i in sorted(outcomes):
        out = outcomes[i]
        tok = "t%d" % i
        syms = by_token.get(i, [])
        final = syms[-1] if syms else None
        prev_ok = i == 0 or outcomes.get(i - 1, ["x"])[0] == "value"
        if out[0] == "value":
            if out[1] != tok:
                v.append(Violation("C19", "own-result", "foreign-or-stale",
                                   "call %d returned %r instead of its own token (replies to its requests: %s)" % (i, out[1], syms)))
            elif not any(x in ("ok", "ok-close") or (x == "empty-200" and notif.get(i)) for x in syms):
                v.append(Violation("C19", "own-result", "value-without-healthy-reply",
                                   "call %d returned a value although none of its requests was answered healthily (%s)" % (i, syms)))
        elif out[0] == "transport-error":
            statuses = [STATUS[x] for x in syms if x in STATUS]
            if not statuses:
                v.append(Violation("C19", "transport-error", "spurious", "TransportError %s but no non-200 reply was sent for this call (%s)" % (out, syms)))
            elif out[1] not in statuses:
                v.append(Violation("C19", "transport-error", "errcode", "TransportError.errcode %r, the replies had status %s" % (out[1], statuses)))
            if out[2] != expected_url:
                v.append(Violation("C19", "transport-error", "url", "TransportError.url %r, expected %r" % (out[2], expected_url)))
        else:
            # another exception: fine, unless the call started from a clean state and its one reply was a non-200
            if prev_ok and len(syms) == 1 and final in STATUS and not refused.get(i):
                v.append(Violation("C19", "transport-error", "%s:%s" % (final, out[1]),
                                   "call %d (clean connection state) got a %d reply but raised %s instead of TransportError" % (i, STATUS[final], out[1])))
    # recovery once faults stopped
    if exhausted_at is not None:
        later = [i for i in sorted(outcomes) if window[i][0] > exhausted_at]
        fails = [i for i in later if outcomes[i][0] != "value"]
        if len(fails) > 1:
            v.append(Violation("C19", "recovery", "more-than-one-failure",
                               "after the last fault was consumed, calls %s failed: %s" % (fails, [outcomes[i] for i in fails])))
        seen_ok = False
        for i in later:
            if outcomes[i][0] == "value":
                seen_ok = True
            elif seen_ok:
                v.append(Violation("C19", "recovery", "failure-after-success", "call %d failed after a healthy exchange had succeeded" % i))
                break
        if len(later) >= 2 and not any(outcomes[i][0] == "value" for i in later):
            v.append(Violation("C19", "recovery", "never-recovers", "no call succeeded after the faults stopped: %s" % [outcomes[i] for i in later]))
    return v


class C19Scenario(object):
    name = "client-c19"
    props = ("C19",)
    shrink_budget = 800

    def __init__(self, tier="quick"):
        self.tier = tier
        self.maxlen = 3 if tier == "quick" else 5
        self.alpha = peermod.FAULTS + ["ok"]  # the last symbol of a script is never "ok"
        nf, na = len(peermod.FAULTS), len(self.alpha)
        # scripts of length L that do not end in a healthy symbol: na^(L-1) * nf; plus the empty script
        self.counts = [1] + [na ** (L - 1) * nf for L in range(1, self.maxlen + 1)]
        self.nscripts = sum(self.counts)
        self.must_cover = self.nscripts * 6
        self.args = {"tier": tier}

    def script_for(self, k):
        """The k-th script in length-then-lexicographic order (computed, never stored)."""
        L = 0
        while k >= self.counts[L]:
            k -= self.counts[L]
            L += 1
        if L == 0:
            return []
        nf, na = len(peermod.FAULTS), len(self.alpha)
        last = k % nf
        k //= nf
        out = [peermod.FAULTS[last]]
        for _ in range(L - 1):
            out.append(self.alpha[k % na])
            k //= na
        out.reverse()
        return out

    def program_for(self, index, rng):
        if index < self.must_cover:
            cfg, k = divmod(index, self.nscripts)
            fam, cw = divmod(cfg, 3)
            return {"family": ("tcp", "unix")[fam], "script": self.script_for(k), "closed_write": cw, "seg": "whole",
                    "variant": (k + cfg) % 4}
        return self.generate(rng)

    def generate(self, rng):
        n = rng.randint(1, 12)
        script = [rng.choice(peermod.SYMBOLS) for _ in range(n)]
        return {"family": rng.choice(["tcp", "unix"]), "script": script, "closed_write": rng.choice([0, 1, 2, "random"]),
                "seg": rng.choice(["whole", "random", "small"]), "http10": rng.random() < 0.15, "variant": rng.randrange(4),
                "close_delimited": rng.random() < 0.15}

    def run(self, program, decider, chooser=None):
        if program.get("variant") == 2:
            # a verbose proxy makes http.client print its traffic: not the check's output
            import contextlib
            import os

            with open(os.devnull, "w") as null, contextlib.redirect_stdout(null):
                return self._run(program, decider, chooser)
        return self._run(program, decider, chooser)

    def _run(self, program, decider, chooser=None):
        cw = program.get("closed_write", "random")
        if cw != "random":
            chooser = PolicyChooser(chooser, {"write-to-closed": cw})
        s = core.Sched(decider, step_cap=150000, horizon=4096.0, chooser=chooser)
        run = C19Run(program, s)
        verdict = s.run(run.root)
        viol = analyse_c19(program, s, run, verdict)
        p = dict(s.probes)
        for sym, _ in getattr(run, "peer", None).consumed if hasattr(run, "peer") else ():
            p["sym_" + sym] = 1
        outs = [ev[4] for ev in s.log if ev[2] == "outcome"]
        if any(o[0] == "transport-error" for o in outs):
            p["transport_error_raised"] = 1
        if any(ev[2] == "outcome" and ev[6] - ev[5] >= 2 for ev in s.log):
            p["silent_retry_consumed_two_symbols"] = 1
        if s.faults.get("write_to_closed_peer"):
            p["write_to_closed_peer"] = 1
        p["family_" + program["family"]] = 1
        nfail = sum(1 for o in outs if o[0] != "value")
        stats = {"steps": s.step, "switches": s.nswitch, "simtime": s.now, "verdict": verdict.kind if verdict else None,
                 "faults": dict(s.faults), "probes": p,
                 "states": set([(program["family"], len(program["script"]), min(nfail, 6))]),
                 "nontrivial": bool(program["script"])}
        return s, viol, stats

    def shrink_candidates(self, program):
        p = program
        sc = p["script"]
        for i in range(len(sc) - 1, -1, -1):
            q = copy.deepcopy(p)
            del q["script"][i]
            q.pop("ncalls", None)
            yield q
        for i in range(len(sc)):
            if sc[i] != "ok":
                q = copy.deepcopy(p)
                q["script"][i] = "ok"
                yield q
        if p.get("seg") != "whole":
            q = copy.deepcopy(p)
            q["seg"] = "whole"
            yield q
        if p.get("http10"):
            q = copy.deepcopy(p)
            q["http10"] = False
            yield q
        if p.get("family") != "tcp":
            q = copy.deepcopy(p)
            q["family"] = "tcp"
            yield q
        if p.get("closed_write") != 0:
            q = copy.deepcopy(p)
            q["closed_write"] = 0
            yield q


# ---------------------------------------------------------------------------
# C18: header stack


class BlockError(Exception):
    pass


class BlockBaseError(BaseException):
    """A cancellation-style exception (like KeyboardInterrupt) raised inside a block."""


HEADER_NAMES = ["X-A", "x-a", "X-a", "X-Test", "x-test", "X-TEST", "Authorization", "authorization", "User-Agent", "user-agent",
                "USER-AGENT", "Content-Length", "content-length", "Content-Type", "CONTENT-TYPE", "X-Num", "Accept-Language"]
HEADER_VALUES = ["v1", "v2", "v3", "", "a b", 0, 5, 1.5, True, False, None, "ünï", "rack 12,  row 3", "a\tb\tc", "x   y", [1, 2], [], {"tuple": ["gzip"]}, {"tuple": []},
                 {"tuple": ["a", "b"]}]


def header_value(x):
    """Program (JSON) form of a header value -> the Python object pushed: {"tuple": [...]} stands for a tuple."""
    if isinstance(x, dict) and "tuple" in x:
        return tuple(x["tuple"])
    return x


def header_dict(d):
    return dict((k, header_value(v)) for k, v in (d or {}).items())


def case_variant(rng, name):
    k = rng.randrange(4)
    if k == 0:
        return name.lower()
    if k == 1:
        return name.upper()
    if k == 2:
        return name
    return "".join(c.upper() if rng.random() < 0.5 else c.lower() for c in name)


def gen_headers(rng, palette=None):
    d = {}
    seen = set()
    for _ in range(rng.choice([0, 1, 1, 2, 3])):
        if palette and rng.random() < 0.8:
            k = case_variant(rng, rng.choice(palette))
        else:
            k = rng.choice(HEADER_NAMES)
        if k.lower() in seen:
            continue  # one definition per name in one dictionary
        seen.add(k.lower())
        val = rng.choice(HEADER_VALUES)
        if isinstance(val, str) and any(ord(c) > 255 for c in val):
            val = "x"
        d[k] = val
    return d


def gen_ops(rng, depth, budget, palette=None):
    ops = []
    for _ in range(rng.randint(1, 3)):
        if budget[0] <= 0:
            break
        budget[0] -= 1
        k = rng.random()
        if k < 0.3 and depth < 4:
            ops.append(["block", gen_headers(rng, palette), gen_ops(rng, depth + 1, budget, palette)])
        elif k < 0.4 and depth > 0:
            ops.append(["try", gen_ops(rng, depth, budget, palette)])
        elif k < 0.7:
            ops.append([rng.choice(["call", "call", "notify", "batch"])])
        elif k < 0.84:
            ops.append(["fail-call", rng.choice(["refuse", "reset", "5xx-len", "truncated", "close-before-reply", "4xx-len"])])
        elif k < 0.88:
            ops.append(["bad-call"])
        elif depth > 0:
            ops.append(["raise", rng.choice(["exception", "exception", "base"])])
        else:
            ops.append(["call"])
    return ops


def gen_c18(rng):
    # a small palette of names per history, so that nested blocks redefine each other's headers
    palette = rng.sample(["X-A", "X-Test", "User-Agent", "Content-Type", "Content-Length", "Authorization", "X-Num", "Content-Language", "Content-MD5"], rng.randint(1, 3))
    prog = {"family": rng.choice(["tcp", "unix"]), "ctor": gen_headers(rng, palette) if rng.random() < 0.7 else None,
            "user_agent": rng.choice([None, "custom-agent/1.0"]), "content_type": rng.choice(["application/json-rpc", "application/json", "application/json; charset=utf-8"]),
            "ops": gen_ops(rng, 0, [rng.randint(3, 10)], palette), "http10": rng.random() < 0.2,
            "credentials": rng.choice([None, None, "user:secret"])}
    return gen_c18_second(rng, prog, palette)


def gen_c18_second(rng, prog, palette):
    if rng.random() < 0.2:
        prog["second"] = gen_headers(rng, palette) if rng.random() < 0.8 else None
    return prog


class C18Run(object):
    def __init__(self, program, sched):
        self.p = program
        self.s = sched
        self.jc, self.js = env.net_seams()
        self.stack = []
        self.counter = 0

    def effective(self):
        """Reference: fold over the stack in push order, case-insensitive, most recent wins."""
        eff = dict(getattr(self, "base", {}))
        for d in self.stack:
            for k, val in d.items():
                eff[str(k).lower()] = str(val)
        eff.pop("content-length", None)
        eff.pop("content-type", None)
        return eff

    def do_request(self, kind, symbol=None):
        s = self.s
        self.counter += 1
        tok = "h%d" % self.counter
        if symbol is not None:
            self.peer.script.insert(self.peer.pos, symbol)
            # a cached keep-alive connection would skip the connect-time fault: start from a cold connection
            if symbol == "refuse":
                self.proxy("close")()
        s.emit("req.expect", tok, kind, symbol, sorted(self.effective().items()))
        try:
            if kind == "call" or symbol is not None:
                self.proxy.echo(tok)
            elif kind == "notify":
                self.proxy._notify.echo(tok)
            else:
                mc = self.jc.MultiCall(self.proxy)
                mc.echo(tok)
                mc._notify.echo(tok + "n")
                mc()
            s.emit("req.done", tok, "ok")
        except core.SimAbort:
            raise
        except BaseException as ex:
            s.emit("req.done", tok, type(ex).__name__)
            if symbol is not None:
                raise
            raise core.HarnessError("healthy request failed: %r" % (ex,))

    def interp(self, ops):
        s = self.s
        tr = self.proxy("transport")
        for op in ops:
            if op[0] == "block":
                before = [dict(d) for d in tr.additional_headers]
                ids_before = list(self.stack)
                s.emit("block.enter", len(self.stack))
                try:
                    pushed = header_dict(op[1])
                    with self.proxy._additional_headers(pushed) as cl:
                        self.stack.append(pushed)
                        if cl is not self.proxy:
                            s.emit("block.client", False)
                        self.interp(op[2])
                    how = "normal"
                except core.SimAbort:
                    raise
                except core.HarnessError:
                    raise
                except BaseException:
                    how = "exception"
                    self.stack = ids_before
                    after = [dict(d) for d in tr.additional_headers]
                    s.emit("block.exit", how, after == before, len(after), len(before))
                    raise
                self.stack = ids_before
                after = [dict(d) for d in tr.additional_headers]
                s.emit("block.exit", how, after == before, len(after), len(before))
            elif op[0] == "try":
                try:
                    self.interp(op[1])
                except core.SimAbort:
                    raise
                except core.HarnessError:
                    raise
                except BaseException as ex:
                    s.emit("caught", type(ex).__name__)
            elif op[0] == "raise":
                if len(op) > 1 and op[1] == "base":
                    self.s.probe("base_exception_exit")
                    raise BlockBaseError("interrupted inside the block")
                raise BlockError("user code failed inside the block")
            elif op[0] == "bad-call":
                # a call that fails on the client side while its headers are being written (a value that cannot be
                # encoded for the wire), inside a block of its own: nothing of it may reach later requests
                before = [dict(d) for d in tr.additional_headers]
                try:
                    with self.proxy._additional_headers({"X-Who": "\u0141ukasz", "X-Stale": "left-over"}):
                        self.proxy.echo("never sent")
                    s.emit("bad-call", "returned")
                except core.SimAbort:
                    raise
                except BaseException as ex:
                    s.emit("bad-call", type(ex).__name__)
                after = [dict(d) for d in tr.additional_headers]
                s.emit("block.exit", "exception", after == before, len(after), len(before))
                s.probe("call_refused_while_writing_headers")
            elif op[0] == "fail-call":
                self.do_request("call", op[1])
            else:
                self.do_request(op[0])

    def root(self):
        import jsonrpclib.config as cfgmod

        s = self.s
        p = self.p
        pr = peermod.Peer(s, p["family"], [], http10=p.get("http10", False))
        pr.start()
        self.peer = pr
        cfg = cfgmod.Config(content_type=p.get("content_type", "application/json-rpc"), user_agent=p.get("user_agent"))
        self.cfg = cfg
        url = pr.url_base + ("/" if p["family"] == "tcp" else "")
        self.base = {}
        if p.get("credentials") and p["family"] == "tcp":
            import base64

            url = url.replace("http://", "http://%s@" % p["credentials"])
            # xmlrpc.client turns the user info of the URL into an Authorization header: the bottom layer of the stack
            self.base = {"authorization": "Basic " + base64.b64encode(p["credentials"].encode()).decode()}
            s.probe("credentials_in_url")
        ctor = header_dict(p.get("ctor")) if p.get("ctor") is not None else None
        self.proxy = self.jc.ServerProxy(url, headers=ctor, config=cfg)
        self.stack = [ctor or {}]
        layers = [header_dict(p.get("ctor"))]
        if "second" in p:
            # a second proxy built on the transport of the first: its constructor headers are pushed on top of the
            # first one's, and the requests below go through it
            ctor2 = header_dict(p["second"]) if p["second"] is not None else None
            self.proxy = self.jc.ServerProxy(url, headers=ctor2, config=cfg, transport=self.proxy("transport"))
            self.stack.append(ctor2 or {})
            layers.append(header_dict(p["second"]))
            s.probe("second_proxy_on_the_same_transport")
        try:
            self.interp(p["ops"])
        except core.SimAbort:
            raise
        except core.HarnessError:
            raise
        except BaseException as ex:
            s.emit("caught.top", type(ex).__name__)
        # after everything: only the constructor headers remain; one more healthy call proves it on the wire
        tr = self.proxy("transport")
        s.emit("final.stack", [dict((str(k), str(v)) for k, v in d.items()) for d in tr.additional_headers] ==
               [dict((str(k), str(v)) for k, v in layer.items()) for layer in layers], len(tr.additional_headers))
        try:
            self.do_request("call")
        except core.SimAbort:
            raise
        except BaseException:
            pass
        try:
            self.proxy("close")()
        except BaseException:
            pass
        pr.shutdown()


def analyse_c18(program, s, run, verdict):
    import re

    v = []
    if verdict is not None:
        v.append(Violation("C18", "termination", verdict.kind, "%s: %s" % (verdict.kind, verdict.detail)))
        return v
    for tid, name, ex in s.thread_errors:
        v.append(Violation("C18", "thread-crash", ex.split("(")[0], "uncaught exception in simulated thread %s: %s" % (name, ex)))
    expect = {}
    for ev in s.log:
        if ev[2] == "req.expect":
            expect[ev[3]] = dict(ev[6])
        elif ev[2] == "block.exit" and not ev[4]:
            v.append(Violation("C18", "restored-after-block", "%s-exit" % ev[3],
                               "after leaving an _additional_headers block (%s exit) the transport holds %d header dictionaries instead of the %d in force before" % (
                                   ev[3], ev[5], ev[6])))
        elif ev[2] == "final.stack" and not ev[3]:
            v.append(Violation("C18", "restored-after-block", "final", "after all blocks were left %d header dictionaries remain" % ev[4]))
    cfg = run.cfg
    for req in run.peer.requests:
        m = re.search(rb'"(h[0-9]+)"', req["body"])
        if not m:
            continue
        tok = m.group(1).decode()
        eff = expect.get(tok)
        if eff is None:
            continue
        lines = []
        for h in req["headers"]:
            if ":" in h:
                k, val = h.split(":", 1)
                lines.append((k.strip(), val.strip()))
        got = {}
        for k, val in lines:
            got.setdefault(k.lower(), []).append(val)
        std = ("host", "accept-encoding", "content-type", "content-length", "user-agent")
        for name, val in sorted(eff.items()):
            if name == "user-agent":
                continue
            vals = got.get(name, [])
            want = val.strip()
            if not vals:
                v.append(Violation("C18", "most-recent-wins", "missing", "request %s lacks pushed header %r" % (tok, name)))
            elif len(vals) > 1:
                v.append(Violation("C18", "most-recent-wins", "duplicated", "header %r emitted %d times: %r" % (name, len(vals), vals)))
            elif vals[0] != want:
                v.append(Violation("C18", "most-recent-wins", "superseded-or-wrong-value",
                                   "header %r carries %r, the most recently pushed definition is %r" % (name, vals[0], want)))
        for name in got:
            if name not in eff and name not in std:
                v.append(Violation("C18", "most-recent-wins", "unexpected-header", "request %s carries header %r which is not in force" % (tok, name)))
        if got.get("content-type") != [cfg.content_type]:
            v.append(Violation("C18", "protected", "content-type", "Content-Type lines %r, configured %r" % (got.get("content-type"), cfg.content_type)))
        if got.get("content-length") != [str(len(req["body"]))]:
            v.append(Violation("C18", "protected", "content-length", "Content-Length lines %r for a body of %d bytes" % (got.get("content-length"), len(req["body"]))))
        ua = eff.get("user-agent", cfg.user_agent).strip()
        if got.get("user-agent") != [ua]:
            v.append(Violation("C18", "user-agent", "wrong", "User-Agent lines %r, expected exactly %r" % (got.get("user-agent"), ua)))
    return v


class C18Scenario(object):
    name = "client-c18"
    props = ("C18",)
    shrink_budget = 800

    def generate(self, rng):
        return gen_c18(rng)

    def run(self, program, decider, chooser=None):
        s = core.Sched(decider, step_cap=150000, horizon=4096.0, chooser=chooser)
        run = C18Run(program, s)
        verdict = s.run(run.root)
        viol = analyse_c18(program, s, run, verdict)
        p = dict(s.probes)
        depth = [0]

        def walk(ops, d):
            depth[0] = max(depth[0], d)
            for op in ops:
                if op[0] == "block":
                    walk(op[2], d + 1)
                elif op[0] == "try":
                    walk(op[1], d)

        walk(program["ops"], 0)
        for ev in s.log:
            if ev[2] == "block.exit":
                p["block_exit_" + ev[3]] = 1
            if ev[2] == "req.expect" and ev[5]:
                p["fault_" + ev[5]] = 1
            if ev[2] == "req.expect" and any(k == "user-agent" for k, _ in ev[6]):
                p["user_agent_overridden"] = 1
            if ev[2] == "req.expect" and ev[4] == "notify":
                p["notify"] = 1
            if ev[2] == "req.expect" and ev[4] == "batch":
                p["batch"] = 1
        if depth[0] >= 3:
            p["nesting_3_or_more"] = 1
        names = set()
        for d in [program.get("ctor") or {}] + _all_dicts(program["ops"]):
            for k in d:
                if k.lower() in names and k not in names:
                    p["same_name_in_other_case"] = 1
                names.add(k.lower())
                names.add(k)
                if k.lower() in ("content-length", "content-type"):
                    p["protected_name_pushed"] = 1
        stats = {"steps": s.step, "switches": s.nswitch, "simtime": s.now, "verdict": verdict.kind if verdict else None,
                 "faults": dict(s.faults), "probes": p, "states": set([(depth[0], len(run.peer.requests) if hasattr(run, "peer") else 0)]),
                 "nontrivial": depth[0] >= 1}
        return s, viol, stats

    def shrink_candidates(self, program):
        p = program

        def variants(ops):
            for i in range(len(ops) - 1, -1, -1):
                yield ops[:i] + ops[i + 1:]
                op = ops[i]
                if op[0] == "block":
                    yield ops[:i] + op[2] + ops[i + 1:]  # drop the block, keep its content
                    for k in list(op[1]):
                        d = dict(op[1])
                        del d[k]
                        yield ops[:i] + [["block", d, op[2]]] + ops[i + 1:]
                    for sub in variants(op[2]):
                        yield ops[:i] + [["block", op[1], sub]] + ops[i + 1:]
                elif op[0] == "try":
                    yield ops[:i] + op[1] + ops[i + 1:]
                    for sub in variants(op[1]):
                        yield ops[:i] + [["try", sub]] + ops[i + 1:]
                elif op[0] in ("notify", "batch"):
                    yield ops[:i] + [["call"]] + ops[i + 1:]

        for ops in variants(p["ops"]):
            q = copy.deepcopy(p)
            q["ops"] = copy.deepcopy(ops)
            yield q
        if p.get("ctor"):
            for k in list(p["ctor"]):
                q = copy.deepcopy(p)
                del q["ctor"][k]
                yield q
        for key, val in (("family", "tcp"), ("http10", False), ("user_agent", None), ("content_type", "application/json-rpc"), ("credentials", None)):
            if p.get(key) != val:
                q = copy.deepcopy(p)
                q[key] = val
                yield q


def _all_dicts(ops):
    out = []
    for op in ops:
        if op[0] == "block":
            out.append(op[1])
            out.extend(_all_dicts(op[2]))
        elif op[0] == "try":
            out.extend(_all_dicts(op[1]))
    return out


# ---------------------------------------------------------------------------
# C17: framing and reassembly


MB = ["é", "ü", "中", "€", "\U0001F600", "ß", "я"]


def gen_text(rng, around=None):
    """Text with multi-byte characters; when `around` is given, they straddle that byte offset."""
    if around is None:
        n = rng.choice([0, 1, 5, 40, 300, 1100, 2500])
        return "".join(rng.choice(MB + ["a", "b", " ", "z"]) for _ in range(n))
    pad = max(0, around - rng.randint(0, 6))
    k = rng.random()
    if k < 0.15:
        # a read block made of white space only
        return "a" * rng.randint(0, 1100) + rng.choice([" ", "\n", "\t", " \n"]) * rng.randint(1030, 3200) + "é" + "z" * rng.randint(0, 30)
    return "a" * pad + "".join(rng.choice(MB) for _ in range(rng.randint(2, 8))) + "b" * rng.randint(0, 40)


def gen_c17(rng):
    k = rng.random()
    backend = rng.choice(["ascii", "raw-utf8", "raw-utf8"])
    if k < 0.5:
        path = rng.choice(["", "/", "/RPC2", "/a/b", "/a%20b/c", "/x%2Fy", "/caf%C3%A9", "//double", "/trailing/", "/api/v1:main",
                           "/services/rpc+json", "/a,b=c&d", "/x!$'()*", "/@user/~home", "/dot.ted/-_.~"])
        query = rng.choice(["", "", "x=1", "a=1&b=2", "q=%2F%3F", "empty=", "k"])
        # the decoded body starts with {"jsonrpc": "2.0", "id": "<36 chars>", "result": " : about 70 bytes
        around = rng.choice([None, 1024 - 70, 2048 - 70, 1024 - 70, 3072 - 70, 500])
        return {"mode": "client", "family": rng.choice(["tcp", "unix"]), "path": path, "query": query,
                "content_type": rng.choice(["application/json-rpc", "application/json", "application/jsonrequest", "application/json-rpc; charset=utf-8"]),
                "backend": backend, "param": gen_text(rng), "result": gen_text(rng, around),
                "encoding": rng.choice(["identity", "identity", "gzip", "chunked", "gzip-multi"]),
                "seg": rng.choice(["whole", "random", "small"]), "http10": rng.random() < 0.5,
                "style": rng.choice(["call", "call", "notify", "batch"]), "indent": rng.choice([None, None, None, 1200]),
                # an earlier exchange on the same proxy is cut in the middle of a large body (or reset): the judged one must not see its remains
                "pre_fault": rng.choice([None, None, None, "truncated", "reset-mid-body", "bad-header"]),
                "transport": rng.choice(["own", "own", "supplied", "shared"]), "late_content_type": rng.random() < 0.15}
    if k < 0.9 and rng.random() < 0.004:
        # a request body beyond the 10 MiB the server reads at a time, for real (no knob): rare, it costs a second
        return {"mode": "server", "kind": rng.choice(["plain", "pooled"]), "family": rng.choice(["tcp", "unix"]), "chunk": None,
                "backend": "ascii", "param": "", "huge": rng.choice([["x", 10 * 1024 * 1024 + 4099], ["\u00e9", 5 * 1024 * 1024 + 4099], ["\u4e2d", 3500000 + 4099]]),
                "content_type": "application/json-rpc", "seg": "whole", "unbuffered": False, "empty_body": False, "notification": False,
                "pause": None}
    if k < 0.9:
        chunk = rng.choice([None, 1, 2, 3, 5, 7, 16, 64, 1000])
        return {"mode": "server", "kind": rng.choice(["plain", "pooled"]), "family": rng.choice(["tcp", "unix"]),
                "chunk": chunk, "backend": backend, "param": gen_text(rng, rng.choice([None, 40, 7, 64])),
                "content_type": rng.choice(["application/json-rpc", "application/json", "application/json; charset=utf-8"]),
                "seg": rng.choice(["whole", "random", "small"]), "unbuffered": rng.random() < 0.3, "empty_body": rng.random() < 0.08, "notification": rng.random() < 0.12,
                "pause": [rng.choice(["in-headers", "before-body", "in-body"]), rng.choice([2.0, 7.0, 30.0, 120.0])] if rng.random() < 0.2 else None}
    if k < 0.95:
        return {"mode": "cgi", "backend": backend, "param": gen_text(rng), "content_type": rng.choice(["application/json-rpc", "application/json", "application/json; charset=utf-8"]),
                "via": rng.choice(["stdin", "stdin", "text"])}
    if rng.random() < 0.2:
        # an unsupported scheme in a URL without the "//" authority marker
        return {"mode": "scheme", "supplied_transport": False, "scheme": rng.choice(["mailto", "news", "gopher", "file", "urn"]), "opaque": True}
    return {"mode": "scheme", "supplied_transport": rng.random() < 0.4, "scheme": rng.choice(["ftp", "ws", "file", "", "unix+ftp", "unix+https", "gopher", "httpx", "unix+", "mailto", "svn+http", "git+https", "tcp+http",
                                                      "unix+unix+http", "x-unix+http", "http+unix", "+http", "unix+http+x"])}


class RawJson(object):
    """Stands for a JSON back-end that emits non-ASCII characters as they are (cjson, ujson with ensure_ascii off, orjson...)."""

    @staticmethod
    def dumps(obj, encoding="utf-8"):
        import json

        return json.dumps(obj, ensure_ascii=False)


class C17Run(object):
    def __init__(self, program, sched):
        self.p = program
        self.s = sched
        self.jc, self.js = env.net_seams()

    def with_backend(self, fn):
        import jsonrpclib

        p = self.p
        if p.get("backend") != "raw-utf8":
            return fn()
        old = (jsonrpclib.jdumps, self.jc.jdumps)
        jsonrpclib.jdumps = RawJson.dumps
        self.jc.jdumps = RawJson.dumps
        try:
            return fn()
        finally:
            jsonrpclib.jdumps, self.jc.jdumps = old

    def root(self):
        self.with_backend(getattr(self, "mode_" + self.p["mode"]))

    # -- client against the recording peer ------------------------------------------------
    def mode_client(self):
        import json
        import jsonrpclib.config as cfgmod

        s = self.s
        p = self.p
        simnet.net().seg_mode = p.get("seg", "whole")

        def reply(req):
            try:
                obj = json.loads(req["body"].decode("utf-8"))
            except ValueError:
                return b"{}"
            if isinstance(obj, list):
                out = [{"jsonrpc": "2.0", "id": e["id"], "result": p["result"]} for e in obj if "id" in e]
                return json.dumps(out, ensure_ascii=False, indent=p.get("indent")).encode("utf-8")
            if "id" not in obj:
                return b""
            return json.dumps({"jsonrpc": "2.0", "id": obj["id"], "result": p["result"]}, ensure_ascii=False, indent=p.get("indent")).encode("utf-8")

        script = []
        if p.get("pre_fault") in ("truncated", "reset-mid-body"):
            script = ["big-" + p["pre_fault"]]
        pr = peermod.Peer(s, p["family"], script, reply_fn=reply, encoding=p.get("encoding", "identity"), http10=p.get("http10", False))
        pr.start()
        self.peer = pr
        cfg = cfgmod.Config(content_type=p["content_type"])
        self.cfg = cfg
        if p["family"] == "tcp":
            url = pr.url_base + p["path"]
        else:
            url = pr.url_base  # the path names the socket
        if p["query"]:
            url += "?" + p["query"]
        s.emit("url", url)
        if p.get("late_content_type"):
            # the configuration is completed after the proxy was built: what counts is the Config at the time of the call
            cfg.content_type = "application/x-early-value"
        how = p.get("transport", "own")
        if how == "supplied":
            # a transport built by the caller
            tr = self.jc.UnixTransport(config=cfg, path=pr.addr) if p["family"] == "unix" else self.jc.Transport(config=cfg)
            proxy = self.jc.ServerProxy(url, config=cfg, transport=tr)
        elif how == "shared":
            # a second proxy on the transport of a first one
            first = self.jc.ServerProxy(url, config=cfg)
            proxy = self.jc.ServerProxy(url, config=cfg, transport=first("transport"))
        else:
            proxy = self.jc.ServerProxy(url, config=cfg)
        if p.get("late_content_type"):
            cfg.content_type = p["content_type"]
        if p.get("pre_fault") == "bad-header":
            # a call that fails on the client side after the request line was prepared: http.client refuses the value
            # of an additional header (a line break in it); nothing reaches the peer
            try:
                with proxy._additional_headers({"X-Trace": "first line\nsecond line"}):
                    proxy.echo("first exchange, refused before it is sent")
                s.emit("pre_fault.outcome", "value", False)
            except core.SimAbort:
                raise
            except BaseException as ex:
                s.emit("pre_fault.outcome", type(ex).__name__, False)
        elif p.get("pre_fault"):
            try:
                val = proxy.echo("first exchange, hit by the fault")
                s.emit("pre_fault.outcome", "value", val == p["result"])
            except core.SimAbort:
                raise
            except BaseException as ex:
                s.emit("pre_fault.outcome", type(ex).__name__, False)
        try:
            if p["style"] == "call":
                out = ["value", proxy.echo(p["param"])]
            elif p["style"] == "notify":
                out = ["value", proxy._notify.echo(p["param"])]
            else:
                mc = self.jc.MultiCall(proxy)
                mc.echo(p["param"])
                mc.echo(p["param"] + "2")
                res = mc()
                out = ["value", [res[0], res[1]]]
        except core.SimAbort:
            raise
        except BaseException as ex:
            out = ["exc", type(ex).__name__, str(ex)[:120]]
        s.emit("outcome", out)
        try:
            proxy("close")()
        except BaseException:
            pass
        pr.shutdown()

    # -- the real server behind the network --------------------------------------------------
    def mode_server(self):
        import builtins
        import json
        import socket
        import jsonrpclib.config as cfgmod

        s = self.s
        p = self.p
        js = self.js
        simnet.net().seg_mode = p.get("seg", "whole")
        cfg = cfgmod.Config(content_type=p["content_type"])
        self.cfg = cfg
        unix = p["family"] == "unix"
        cls = js.PooledJSONRPCServer if p["kind"] == "pooled" else js.SimpleJSONRPCServer
        handler = js.SimpleJSONRPCRequestHandler
        if p.get("unbuffered"):
            class Unbuffered(js.SimpleJSONRPCRequestHandler):
                rbufsize = 0  # a StreamRequestHandler knob: the body is read as the segments arrive

                def log_message(self, format, *args):
                    pass

            handler = Unbuffered
            s.probe("unbuffered_request_stream")
        srv = cls("/sim/sock" if unix else ("sim", 0), requestHandler=handler, logRequests=False,
                  address_family=socket.AF_UNIX if unix else socket.AF_INET, config=cfg)
        got = []

        def echo(x):
            got.append(x)
            return x

        srv.register_function(echo, "echo")
        knob = p.get("chunk")
        if knob:
            # buggify: the read-chunk size of do_POST (10 MiB in production) is clamped
            js.min = lambda a, b: builtins.min(a, b, knob)
            s.fault("read_chunk_clamped")
        try:
            st = s.spawn(lambda: srv.serve_forever(0.5), "serve_forever", "server")
            body = json.dumps({"jsonrpc": "2.0", "method": "echo", "params": [p["param"]], "id": 1}, ensure_ascii=False).encode("utf-8")
            if p.get("empty_body"):
                body = b""  # size 0: answered like any other body (an invalid-request error)
            elif p.get("notification"):
                # nothing to answer: the (empty) reply is a message with a declared length and content type like any other
                body = json.dumps({"jsonrpc": "2.0", "method": "echo", "params": [p["param"]]}, ensure_ascii=False).encode("utf-8")
            sm = simnet.module()
            if unix:
                sock = sm.socket(socket.AF_UNIX, socket.SOCK_STREAM)
                sock.connect("/sim/sock")
            else:
                sock = sm.create_connection(("sim", srv.server_address[1]))
            head = ("POST / HTTP/1.0\r\nContent-Type: application/json-rpc\r\nContent-Length: %d\r\n\r\n" % len(body)).encode()
            if p.get("pause"):
                # a slow peer: the request arrives in two parts, seconds apart (inside the headers, between headers and
                # body, or inside the body)
                whole = head + body
                cut = {"in-headers": 20, "before-body": len(head), "in-body": len(head) + len(body) // 2}[p["pause"][0]]
                sock.sendall(whole[:cut])
                s.fault("peer_pauses_mid_request")
                s.sleep(p["pause"][1])
                sock.sendall(whole[cut:])
            else:
                sock.sendall(head + body)
            chunks = []
            try:
                while True:
                    b = sock.recv(65536)
                    if not b:
                        break
                    chunks.append(b)
            except OSError:
                pass  # the server closed with part of the request unread: reset
            sock.close()
            raw = b"".join(chunks)
            s.emit("server.raw", raw.decode("latin-1"))
            s.emit("server.got", got == [p["param"]], len(got))
            srv.shutdown()
            srv.server_close()
            while st.state != core.DONE:
                s.block(st.joiners, None, "join")
        finally:
            if knob:
                del js.min

    def mode_cgi(self):
        import json
        import sys
        import io
        import jsonrpclib.config as cfgmod

        s = self.s
        p = self.p
        cfg = cfgmod.Config(content_type=p["content_type"])
        h = self.js.CGIJSONRPCRequestHandler(config=cfg)
        h.register_function(lambda x: x, "echo")

        class Out(object):
            def __init__(self):
                self.buffer = io.BytesIO()

            def write(self, t):
                self.buffer.write(t.encode("utf-8"))

            def flush(self):
                pass

        text = json.dumps({"jsonrpc": "2.0", "method": "echo", "params": [p["param"]], "id": 1}, ensure_ascii=False)
        old = sys.stdout
        o = Out()
        sys.stdout = o
        try:
            if p.get("via") == "stdin":
                # the documented entry point: handle_request() reads CONTENT_LENGTH bytes from standard input, which is a
                # pipe from the web server - the body arrives in pieces of any size
                import os

                data = text.encode("utf-8")
                sched = s

                class Pieces(io.RawIOBase):
                    def __init__(self):
                        self.pos = 0

                    def readable(self):
                        return True

                    def readinto(self, b):
                        if self.pos >= len(data):
                            return 0
                        c = sched.choose(24, "stdin-piece")  # 0: as much as is asked for
                        n = min(len(b), len(data) - self.pos, c or len(b))
                        b[:n] = data[self.pos:self.pos + n]
                        self.pos += n
                        sched.fault("stdin_short_read")
                        return n

                old_in, old_env = sys.stdin, dict((k, os.environ.get(k)) for k in ("REQUEST_METHOD", "CONTENT_LENGTH"))
                sys.stdin = io.TextIOWrapper(io.BufferedReader(Pieces(), 64), encoding="utf-8")
                os.environ["REQUEST_METHOD"] = "POST"
                os.environ["CONTENT_LENGTH"] = str(len(data))
                try:
                    h.handle_request()
                finally:
                    sys.stdin = old_in
                    for k, val in old_env.items():
                        if val is None:
                            os.environ.pop(k, None)
                        else:
                            os.environ[k] = val
            else:
                h.handle_jsonrpc(text)
        finally:
            sys.stdout = old
        s.emit("cgi.raw", o.buffer.getvalue().decode("latin-1"))

    def mode_scheme(self):
        s = self.s
        sc = self.p["scheme"]
        try:
            if self.p.get("supplied_transport"):
                # the scheme is checked whoever provides the transport
                import jsonrpclib.config as cfgmod

                cfg = cfgmod.Config()
                tr = self.jc.UnixTransport(config=cfg, path="/sim/peer") if sc.startswith("unix+") else self.jc.Transport(config=cfg)
                self.jc.ServerProxy("%s://sim:80/x" % sc, transport=tr, config=cfg)
                s.probe("unsupported_scheme_with_a_supplied_transport")
            elif self.p.get("opaque"):
                self.jc.ServerProxy("%s:x@sim:80/x" % sc)
                s.probe("unsupported_scheme_without_authority_marker")
            else:
                self.jc.ServerProxy("%s://sim:80/x" % sc)
            s.emit("scheme", sc, "accepted")
        except OSError:
            s.emit("scheme", sc, "OSError")
        except core.SimAbort:
            raise
        except BaseException as ex:
            s.emit("scheme", sc, type(ex).__name__)


def analyse_c17(program, s, run, verdict):
    import json
    from .sysim import parse_http

    v = []
    p = program
    if verdict is not None:
        v.append(Violation("C17", "termination", verdict.kind, "%s: %s" % (verdict.kind, verdict.detail)))
        return v
    for tid, name, ex in s.thread_errors:
        v.append(Violation("C17", "thread-crash", ex.split("(")[0], "uncaught exception in simulated thread %s: %s" % (name, ex)))
    ev = dict((e[2], e) for e in s.log)
    if p["mode"] == "client":
        out = ev["outcome"][3]
        want = p["result"] if p["style"] == "call" else (None if p["style"] == "notify" else [p["result"], p["result"]])
        if out[0] != "value":
            v.append(Violation("C17", "reassembly", "client-raised:%s" % out[1],
                               "client raised %s for a valid %s-encoded UTF-8 response of %d bytes" % (out[1:], p["encoding"], len(p["result"].encode("utf-8")))))
        elif out[1] != want:
            v.append(Violation("C17", "reassembly", "client-text-differs", "decoded text differs from the decoding of the whole body"))
        pf = ev.get("pre_fault.outcome")
        if pf is not None and p.get("pre_fault") == "reset-mid-body":
            # the connection was reset in the middle of the first reply: the transport retries once and the second,
            # complete reply is a valid body like any other
            if pf[3] != "value":
                v.append(Violation("C17", "reassembly", "client-raised-after-reset:%s" % pf[3],
                                   "the reply that followed a reply cut by a reset was not reassembled: %s" % pf[3]))
            elif not pf[4]:
                v.append(Violation("C17", "reassembly", "client-text-differs-after-reset", "text decoded after a cut reply differs from the whole body"))
        # what was on the wire, one request per connection
        for conn in s.net.conns:
            data = bytes(conn.c2s)
            end = data.find(b"\r\n\r\n")
            if end < 0:
                continue
            head = data[:end].decode("latin-1").split("\r\n")
            body = data[end + 4:]
            hd = {}
            for line in head[1:]:
                k, _, val = line.partition(":")
                hd.setdefault(k.strip().lower(), []).append(val.strip())
            # several requests on one keep-alive connection: judge the first only
            declared = hd.get("content-length", [None])[0]
            nxt = body.find(b"POST ")
            first_body = body if nxt < 0 else None
            if first_body is not None:
                if declared != str(len(first_body)):
                    v.append(Violation("C17", "content-length", "client-request",
                                       "request declares Content-Length %s for a body of %d bytes" % (declared, len(first_body))))
            if hd.get("content-type") != [p["content_type"]]:
                v.append(Violation("C17", "content-type", "client-request", "Content-Type %r, configured %r" % (hd.get("content-type"), p["content_type"])))
            target = head[0].split(" ")[1] if len(head[0].split(" ")) > 1 else None
            if p["family"] == "unix":
                exp = "/" + ("?" + p["query"] if p["query"] else "")
            else:
                exp = (p["path"] or "/") + ("?" + p["query"] if p["query"] else "")
            if target != exp:
                v.append(Violation("C17", "request-target", "differs", "request target %r, the URL says %r" % (target, exp)))
    elif p["mode"] == "server":
        raw = ev["server.raw"][3].encode("latin-1")
        msgs = parse_http(raw)
        if not msgs or msgs[0][2] is None:
            v.append(Violation("C17", "reassembly", "server-no-reply", "no HTTP reply"))
            return v
        line, hd, body = msgs[0][0], msgs[0][1], raw[raw.find(b"\r\n\r\n") + 4:]
        status = line.split()[1] if len(line.split()) > 1 else "?"
        if status != "200":
            v.append(Violation("C17", "reassembly", "server-http-%s" % status,
                               "valid UTF-8 request body of %d bytes (read chunk %s) answered with HTTP %s" % (
                                   len(p["param"].encode("utf-8")), p.get("chunk") or "10 MiB", status)))
        elif p.get("empty_body"):
            try:
                obj = json.loads(body.decode("utf-8"))
                if not isinstance(obj, dict) or "error" not in obj:
                    v.append(Violation("C17", "reassembly", "server-empty-body-reply", "an empty request body was answered %r" % body[:80]))
            except ValueError:
                v.append(Violation("C17", "reassembly", "server-reply-undecodable", "reply to an empty body is not UTF-8 JSON"))
        elif p.get("notification"):
            if body != b"":
                v.append(Violation("C17", "reassembly", "server-notification-answered", "a notification was answered %r" % body[:80]))
            if not ev["server.got"][3]:
                v.append(Violation("C17", "reassembly", "server-text-differs", "the method did not receive the text that was sent"))
        else:
            try:
                obj = json.loads(body.decode("utf-8"))
                if obj.get("result") != p["param"]:
                    v.append(Violation("C17", "reassembly", "server-text-differs", "text handed to the method differs from the decoding of the whole body"))
            except ValueError:
                v.append(Violation("C17", "reassembly", "server-reply-undecodable", "reply body is not UTF-8 JSON"))
            if not ev["server.got"][3] and not p.get("empty_body"):
                v.append(Violation("C17", "reassembly", "server-text-differs", "the method did not receive the text that was sent"))
        if hd.get("content-length") != str(len(body)):
            v.append(Violation("C17", "content-length", "server-reply", "reply declares Content-length %r for a body of %d bytes" % (hd.get("content-length"), len(body))))
        if status == "200" and hd.get("content-type") != p["content_type"]:
            v.append(Violation("C17", "content-type", "server-reply", "reply Content-type %r, configured %r" % (hd.get("content-type"), p["content_type"])))
    elif p["mode"] == "cgi":
        raw = ev["cgi.raw"][3].encode("latin-1")
        end = raw.find(b"\n\n")
        head = raw[:end].decode("latin-1").split("\n")
        body = raw[end + 2:]
        hd = dict((l.split(":", 1)[0].strip().lower(), l.split(":", 1)[1].strip()) for l in head if ":" in l)
        if hd.get("content-length") != str(len(body)):
            v.append(Violation("C17", "content-length", "cgi", "CGI reply declares Content-Length %r for %d bytes" % (hd.get("content-length"), len(body))))
        if hd.get("content-type") != p["content_type"]:
            v.append(Violation("C17", "content-type", "cgi", "CGI Content-Type %r" % hd.get("content-type")))
        try:
            if json.loads(body.decode("utf-8")).get("result") != p["param"]:
                v.append(Violation("C17", "reassembly", "cgi-text-differs", "CGI result differs"))
        except ValueError:
            v.append(Violation("C17", "reassembly", "cgi-undecodable", "CGI body undecodable"))
    else:
        if p.get("supplied_transport") and p["scheme"] == "unix+https":
            # http(s) over a Unix socket is a supported scheme; the library only lacks a transport of its own for the
            # TLS variant ("unhandled combination"), so with a transport supplied by the caller there is nothing to refuse
            pass
        elif ev["scheme"][4] != "OSError":
            v.append(Violation("C17", "scheme", "not-rejected", "scheme %r: %s" % (p["scheme"], ev["scheme"][4])))
    return v


class C17Scenario(object):
    name = "client-c17"
    props = ("C17",)
    shrink_budget = 500

    def generate(self, rng):
        return gen_c17(rng)

    def run(self, program, decider, chooser=None):
        if program.get("huge"):
            # the stored program names the 10 MiB parameter (character, count); it is built here
            program = dict(program, param=program["huge"][0] * program["huge"][1])
        s = core.Sched(decider, step_cap=400000, horizon=4096.0, chooser=chooser)
        run = C17Run(program, s)
        verdict = s.run(run.root)
        viol = analyse_c17(program, s, run, verdict)
        p = dict(s.probes)
        pg = program
        p["mode_" + pg["mode"]] = 1
        if pg.get("backend") == "raw-utf8":
            p["backend_raw_utf8"] = 1
        if pg["mode"] == "client":
            p["encoding_" + pg["encoding"]] = 1
            b = pg["result"].encode("utf-8")
            for cut in (1024 - 70, 2048 - 70):
                pass
            if len(b) > 1024 and any(ord(c) > 127 for c in pg["result"]):
                p["multibyte_response_beyond_first_read"] = 1
            if " " * 1030 in pg["result"] or "\n" * 1030 in pg["result"] or pg.get("indent"):
                p["whitespace_only_read_block"] = 1
            if pg["query"]:
                p["query_string"] = 1
            if pg.get("pre_fault") in ("truncated", "reset-mid-body"):
                p["earlier_exchange_cut_mid_body"] = 1
            if pg.get("pre_fault") == "bad-header":
                p["earlier_call_refused_while_building_headers"] = 1
            if pg.get("transport", "own") != "own":
                p["transport_" + pg["transport"]] = 1
            if pg.get("late_content_type"):
                p["content_type_set_after_the_proxy_was_built"] = 1
            if "%" in pg["path"]:
                p["percent_escape_in_path"] = 1
            p["family_" + pg["family"]] = 1
        if pg["mode"] == "cgi" and pg.get("via") == "stdin" and s.faults.get("stdin_short_read", 0) > 1:
            p["cgi_body_read_in_pieces"] = 1
        if pg["mode"] == "server":
            if pg.get("chunk") and any(ord(c) > 127 for c in pg["param"]):
                p["multibyte_request_with_small_read_chunk"] = 1
            p["server_" + pg["kind"]] = 1
            if pg.get("empty_body"):
                p["empty_request_body"] = 1
            elif pg.get("notification"):
                p["server_answers_a_notification_with_an_empty_message"] = 1
            if pg.get("pause"):
                p["request_with_a_pause_of_seconds_inside"] = 1
            if pg.get("huge"):
                p["request_body_beyond_10_MiB_for_real"] = 1
        if s.faults.get("short_read"):
            p["short_reads"] = 1
        stats = {"steps": s.step, "switches": s.nswitch, "simtime": s.now, "verdict": verdict.kind if verdict else None,
                 "faults": dict(s.faults), "probes": p,
                 "states": set([(pg["mode"], pg.get("encoding"), pg.get("chunk"), pg.get("backend"))]),
                 "nontrivial": pg["mode"] in ("client", "server")}
        return s, viol, stats

    def shrink_candidates(self, program):
        p = program
        for key in ("param", "result"):
            t = p.get(key)
            if t:
                for cand in (t[: len(t) // 2], t[len(t) // 2:], t[1:], t[:-1]):
                    if cand != t:
                        q = copy.deepcopy(p)
                        q[key] = cand
                        yield q
        for key, val in (("pre_fault", None), ("unbuffered", False), ("seg", "whole"), ("encoding", "identity"), ("family", "tcp"), ("backend", "ascii"), ("http10", True),
                         ("query", ""), ("path", "/"), ("style", "call"), ("kind", "plain"), ("content_type", "application/json-rpc")):
            if key in p and p[key] != val:
                q = copy.deepcopy(p)
                q[key] = val
                yield q
        if p.get("chunk") not in (None, 1):
            q = copy.deepcopy(p)
            q["chunk"] = 1
            yield q
