"""
C01 (end-to-end transparency, fault-free), C04 (notifications) and C13
(history/schedule independence of replies, Config untouched) on the
full-system simulation of sysim.
"""

import copy
import json

from . import core, env, sysim
from .runner import Violation
from .syscheck import parse, jnorm, op_tokens, TOKEN, _fix_handle_count, INF

# ---------------------------------------------------------------------------
# JSON value generator (C01)

STRINGS = ["", "a", "0", "null", "é", "中文", "\U0001F600", "line\nbreak", "quo\"te", "back\\slash", " ", "\u0000", "a" * 40,
           "é" * 700]
KEYS = ["a", "b", "x1", "k_2", "é", "", "key with space", "0"]


_GEN_PLAIN_JSONCLASS = False


def gen_value(rng, depth=0, nokeys=False):
    if _GEN_PLAIN_JSONCLASS and rng.random() < 0.06:
        # class translation is off: such members are plain data and travel verbatim
        import copy

        return copy.deepcopy(rng.choice(JSONCLASS_LOOKALIKES))
    k = rng.random()
    if depth >= 3:
        k *= 0.7
    if k < 0.08:
        return None
    if k < 0.16:
        return rng.choice([True, False])
    if k < 0.34:
        return rng.choice([0, 1, -1, 7, 2 ** 31, -(2 ** 31) - 1, 2 ** 53, -(2 ** 53), 2 ** 53 - 1, rng.randrange(-10 ** 6, 10 ** 6)])
    if k < 0.46:
        return rng.choice([0.0, -0.0, 1.5, -2.25, 1e-9, 1e300, 3.141592653589793, 0.1, 1.0, rng.random()])
    if k < 0.7:
        return rng.choice(STRINGS)
    if k < 0.85:
        return [gen_value(rng, depth + 1) for _ in range(rng.choice([0, 0, 1, 2, 3]))]
    return dict((rng.choice(KEYS), gen_value(rng, depth + 1)) for _ in range(rng.choice([0, 0, 1, 2, 3])))


NAME_PARTS = ["add", "get_data", "x", "Method9", "ping", "é", "名前", "with space", "dash-name", "q?", "a" * 30, "call", "close", "result",
              "\u00b5s", "\u2126", "x\u00b2", "\ufb01le", "\uff21\uff22", "e\u0301", "\u212b"]


def gen_name(rng):
    k = rng.random()
    if k < 0.5:
        return rng.choice(["add", "get_data", "x", "Method9", "ping", "resolve", "call", "result"])
    if k < 0.7:
        return ".".join(rng.choice(["ns", "a", "b", "sub", "x1", "Method9"]) for _ in range(rng.randint(2, 3)))
    if k < 0.73:
        # a function registered under a dotted name with a private-looking later component
        return rng.choice(["tools", "svc"]) + "." + rng.choice(["_double", "_x", "_impl.run"])
    if k < 0.76:
        # later segments named like attributes a method-proxy object might have
        return rng.choice(["user", "mail", "svc"]) + "." + ".".join(
            rng.choice(["name", "send", "close", "transport", "call", "encoding", "verbose"]) for _ in range(rng.randint(1, 2)))
    return rng.choice(NAME_PARTS)


def typed_equal(a, b):
    """Equality up to JSON normalisation, but strict about bool / int / float / None."""
    if isinstance(a, bool) or isinstance(b, bool) or a is None or b is None:
        return type(a) is type(b) and a == b
    if isinstance(a, (int, float)) and isinstance(b, (int, float)):
        return type(a) is type(b) and a == b and (str(a) == str(b))
    if isinstance(a, str) and isinstance(b, str):
        return a == b
    if isinstance(a, (list, tuple)) and isinstance(b, (list, tuple)):
        return len(a) == len(b) and all(typed_equal(x, y) for x, y in zip(a, b))
    if isinstance(a, dict) and isinstance(b, dict):
        return set(a) == set(b) and all(typed_equal(a[k], b[k]) for k in a)
    return False


JSONCLASS_LOOKALIKES = [{"__jsonclass__": ["decimal.Decimal", ["1.5"]]}, {"__jsonclass__": []}, {"__jsonclass__": "x", "other": 1},
                        {"__jsonclass__": ["os.system", ["true"]]}, [{"__jsonclass__": None}]]


def gen_c01(rng):
    kind = rng.choice(["plain", "pooled", "pooled-user", "dispatcher"])
    sv = {"kind": kind, "family": rng.choice(["tcp", "unix"]), "version": rng.choice([2.0, 2.0, 1.0]),
          "use_jsonclass": rng.choice([True, True, False])}
    global _GEN_PLAIN_JSONCLASS
    _GEN_PLAIN_JSONCLASS = not sv["use_jsonclass"]
    if kind == "pooled-user":
        mx = rng.choice([1, 2, 3])
        sv["pool"] = [mx, rng.randrange(0, mx + 1)]
    if kind != "dispatcher" and rng.random() < 0.2:
        sv["http11"] = True  # persistent connections
    methods = {}
    instance = {}
    clients = []
    used = set()
    shared_table = {"rows": [[1, "a"], [2, "b"], [3, {"k": [4, 5, 6]}]], "n": 3, "nested": {"x": [1, 2, 3, [4, [5, [6]]]]}}
    for ci in range(rng.randint(1, 3)):
        ops = []
        for oi in range(rng.randint(1, 4)):
            def one(tag):
                for _ in range(20):
                    name = gen_name(rng)
                    # one callable per call: unique names attribute every execution
                    name = name + ("" if rng.random() < 0.5 else "_") + tag if "." not in name else name + "." + tag
                    if name not in used and not name.startswith("_") and not any(p.startswith("__") for p in name.split(".")):
                        used.add(name)
                        break
                spec = {"kind": "const", "ret": gen_value(rng)}
                if rng.random() < 0.1:
                    spec["d"] = rng.choice([0.5, 7.0, 40.0])  # a callable that takes its time (virtual seconds)
                if rng.random() < 0.25:
                    # several callables return the very same container object (a shared table)
                    spec = {"kind": "shared", "ret": shared_table}
                if "." in name and rng.random() < 0.5 and not any(p.startswith("_") for p in name.split(".")):
                    instance[name] = spec  # (an instance's attributes beginning with "_" are not exported, by design)
                else:
                    methods[name] = spec
                if rng.random() < 0.5:
                    params = [gen_value(rng) for _ in range(rng.choice([0, 1, 1, 2, 3]))]
                else:
                    params = dict((rng.choice(["a", "b", "x1", "k_2", "é", "kw", "func", "method", "params", "args", "kwargs",
                                               "config", "name", "request", "cls", "id", "result"]), gen_value(rng))
                                  for _ in range(rng.choice([0, 1, 2, 3])))
                return name, params

            k = rng.random()
            if k < 0.12:
                # two dotted calls through one kept handle: proxy.ns / ns.a(...) / ns.b(...)
                prefix = rng.choice(["ns", "calc", "sub"]) + "%d%d" % (ci, oi)
                calls = []
                for e in range(2):
                    suffix = rng.choice(["add", "mul", "x1"]) + str(e)
                    name = prefix + "." + suffix
                    used.add(name)
                    spec = {"kind": "const", "ret": gen_value(rng)}
                    if rng.random() < 0.5:
                        instance[name] = spec
                    else:
                        methods[name] = spec
                    calls.append([[suffix], [gen_value(rng) for _ in range(rng.choice([0, 1, 2]))]])
                ops.append(["hcall", [prefix], calls])
            elif k < 0.2:
                # a C-implemented callable registered as it is (no Python frame, often no introspectable signature)
                b, params, ret = rng.choice([("max", [3, 1, 2], 3), ("len", [[1, 2, 3]], 3), ("str", [5], "5"), ("sorted", [[3, 1, 2]], [1, 2, 3]),
                                             ("divmod", [7, 2], [3, 1]), ("format", ["a", "b"], "a-b"), ("int", ["12"], 12),
                                             ("abs", [-4], 4), ("sum", [[1, 2, 3]], 6), ("repr", ["x"], "'x'")])
                name = "%s_c%do%d" % (b, ci, oi)
                methods[name] = {"kind": "builtin", "builtin": b, "ret": ret}
                ops.append(["call", [name], params])
            elif k < 0.7:
                name, params = one("c%do%d" % (ci, oi))
                ops.append(["call", name.split(".") if "." in name else [name], params])
                if name in methods and rng.random() < 0.12:
                    # the name is registered again with another callable, and called again
                    spec2 = {"kind": "const", "ret": gen_value(rng)}
                    methods[name + "@2"] = spec2
                    ops.append(["rebind", name, spec2])
                    ops.append(["call2", [name], [gen_value(rng)]])
            else:
                ents = []
                for e in range(rng.randint(1, 3)):
                    name, params = one("c%do%de%d" % (ci, oi, e))
                    ents.append(["call", name.split(".") if "." in name else [name], params])
                # siblings that are not calls of a returning callable: the calls next to them are judged all the same
                while len(ents) < 5 and rng.random() < 0.35:
                    tag = "c%do%ds%d" % (ci, oi, len(ents))
                    sk = rng.random()
                    if sk < 0.3:
                        name, params = one(tag)
                        sib = ["notify", name.split(".") if "." in name else [name], params]
                    elif sk < 0.5:
                        sib = ["notify", ["nope_" + tag], [gen_value(rng)]]
                    elif sk < 0.7:
                        methods["fail_" + tag] = {"kind": "fail"}
                        sib = [rng.choice(["notify", "call"]), ["fail_" + tag], [gen_value(rng)]]
                    elif sk < 0.85:
                        methods["quit_" + tag] = {"kind": "exit"}
                        sib = [rng.choice(["notify", "call"]), ["quit_" + tag], []]
                    else:
                        sib = ["call", ["nope_" + tag], []]
                    ents.insert(rng.randrange(len(ents) + 1), sib)
                ops.append(["batch", ents])
        clients.append({"version": rng.choice([None, 2.0, 1.0]), "history": rng.random() < 0.6, "ops": ops,
                        "use_jsonclass": sv["use_jsonclass"]})
    prog = {"server": sv, "net": {"seg": rng.choice(["whole", "random", "small"]), "delay": rng.choice([0, 0, 8])},
            "methods": methods, "clients": clients, "lifecycle": "serve"}
    if instance:
        prog["instance"] = instance
        if rng.random() < 0.2:
            prog["instance_falsy"] = True  # the registered object is "empty" (its truth value is False)
    if rng.random() < 0.15:
        prog["debug_log"] = True
    if kind != "dispatcher" and rng.random() < 0.1:
        prog["second_server"] = "early"  # a server on the other kind of listener lives in the same process
    if kind == "dispatcher" and rng.random() < 0.01:
        # a long life: more than a thousand exchanges through one proxy with a History
        del clients[1:]
        clients[0]["history"] = True
        methods["abs_burst"] = {"kind": "builtin", "builtin": "abs", "ret": 0}
        clients[0]["ops"].append(["burst", ["abs_burst"], rng.choice([1030, 1100])])
        prog["big"] = True
        return prog
    if kind == "dispatcher" and rng.random() < 0.25:
        # nested exchanges: one client with a History; some of its calls go to a method that calls another one through
        # a second proxy recording into the same History
        del clients[1:]
        clients[0]["history"] = True
        extra = []
        for k in range(rng.randint(1, 2)):
            inner, outer = "inner_r%d" % k, "outer_r%d" % k
            ret = gen_value(rng)
            methods[inner] = {"kind": "const", "ret": ret}
            methods[outer] = {"kind": "relay", "inner": inner, "ret": ret}
            extra.append(["call", [outer], [gen_value(rng)]])
        for op in extra:
            clients[0]["ops"].insert(rng.randrange(len(clients[0]["ops"]) + 1), op)
        prog["nested"] = True
    return prog


def analyse_c01(program, s, run, verdict):
    v = []
    h = parse(program, s, run)
    if verdict is not None:
        v.append(Violation("C01", "termination", verdict.kind, "%s on a fault-free network: %s" % (verdict.kind, verdict.detail)))
        return v, h
    for tid, name, ex in s.thread_errors:
        v.append(Violation("C01", "thread-crash", ex.split("(")[0], "uncaught exception in simulated thread %s: %s" % (name, ex)))
    specs = dict(program.get("methods", {}))
    specs.update(program.get("instance", {}))
    # call log: name -> [args json]
    log = {}
    for idx, name, args, tid in h.call_args:
        log.setdefault(name, []).append(args)
    expected_calls = {}

    def check_one(ci, oi, name_parts, params, outcome, where):
        name = ".".join(name_parts)
        expected_calls[name] = params
        if outcome[0] != "value":
            v.append(Violation("C01", "return-value", "raised:%s" % outcome[1], "%s %s raised %s instead of returning" % (where, name, outcome[1:])))
            return
        ret = specs[name]["ret"]
        if specs[name]["kind"] == "relay":
            # the relaying method hands its own arguments to the inner callable and wraps what that one returns
            expected_calls[specs[name]["inner"]] = params
            ret = ["relayed", ret]
        if not typed_equal(outcome[1], ret):
            v.append(Violation("C01", "return-value", "differs", "%s %r returned %r instead of %r" % (where, name, outcome[1], ret)))

    for key in sorted(h.ops):
        o = h.ops[key]
        if o["ret"] == INF or o["kind"] == "sleep":
            continue
        op = o["op"]
        if op[0] == "call":
            check_one(o["ci"], o["oi"], op[1], op[2], o["out"], "call")
        elif op[0] == "call2":
            # the call that follows a new registration of the same name: the new callable must run
            check_one(o["ci"], o["oi"], [op[1][0] + "@2"], op[2], o["out"], "call after re-registration")
        elif op[0] == "burst":
            if o["out"][0] != "burst" or o["out"][1] != op[2]:
                v.append(Violation("C01", "return-value", "burst", "%d calls in a row: %r" % (op[2], o["out"])))
        elif op[0] == "hcall":
            if o["out"][0] != "hcall":
                v.append(Violation("C01", "return-value", "handle-raised:%s" % o["out"][1], "calls through a kept handle raised %s" % (o["out"][1:],)))
                for suffix, params in op[2]:
                    expected_calls[".".join(op[1] + suffix)] = params
                continue
            for (suffix, params), r in zip(op[2], o["out"][1]):
                check_one(o["ci"], o["oi"], op[1] + suffix, params, r, "call through a kept handle")
        elif op[0] == "batch":
            if o["out"][0] != "batch":
                v.append(Violation("C01", "return-value", "batch-raised:%s" % o["out"][1], "batch raised %s" % (o["out"][1:],)))
                for e in op[1]:
                    expected_calls[".".join(e[1])] = e[2]
                continue
            res = o["out"][1]
            calls = [e for e in op[1] if e[0] == "call"]
            if len(res) != len(calls):
                v.append(Violation("C01", "return-value", "batch-length", "batch of %d calls produced %d results" % (len(calls), len(res))))
                for e in op[1]:
                    if ".".join(e[1]) in specs:
                        expected_calls[".".join(e[1])] = e[2]
                continue
            for e, r in zip(calls, res):
                sp = specs.get(".".join(e[1]))
                if sp is None or sp["kind"] in ("fail", "exit"):
                    # a sibling that cannot return: its slot must hold an error, whatever it says
                    if sp is not None:
                        expected_calls[".".join(e[1])] = e[2]
                    if r[0] != "error":
                        v.append(Violation("C01", "return-value", "failing-sibling-returned", "batch entry %s produced %r" % (".".join(e[1]), r)))
                    continue
                check_one(o["ci"], o["oi"], e[1], e[2], r, "batch entry")
            for e in op[1]:
                if e[0] == "notify" and ".".join(e[1]) in specs:
                    expected_calls[".".join(e[1])] = e[2]
    for name, params in sorted(expected_calls.items()):
        if specs.get(name, {}).get("kind") == "builtin":
            continue  # a built-in leaves no entry in the call log: judged by its value only
        got = log.get(name, [])
        if len(got) != 1:
            v.append(Violation("C01", "invoked-once", "count-%d" % min(len(got), 2), "callable %r invoked %d times" % (name, len(got))))
            continue
        a = json.loads(got[0])
        want = [list(params), {}] if isinstance(params, list) else [[], params]
        if not typed_equal(a, want):
            v.append(Violation("C01", "arguments", "differ", "callable %r received %r instead of %r" % (name, a, want)))
    for name in log:
        if name not in expected_calls:
            v.append(Violation("C01", "invoked-once", "phantom", "callable %r invoked although never called" % name))
    # History == wire, in order
    by_req = {}
    for ent in h.wire:
        by_req.setdefault(ent["req"], []).append(ent)
    if program.get("nested"):
        # exchanges nest: the History holds the requests in the order they were sent and the responses in the order
        # they were received
        hist = run.histories.get(0)
        if hist is not None:
            if list(hist.requests) != [e["req"] for e in run.wire]:
                v.append(Violation("C01", "history", "nested-request-order", "History.requests is not the sequence of requests in the order they were sent"))
            if list(hist.responses) != [e["resp"] for e in run.wire_done]:
                v.append(Violation("C01", "history", "nested-response-order", "History.responses is not the sequence of responses in the order they were received"))
        return v, h
    for ci, hist in sorted(run.histories.items()):
        nops = sum((len(op[2]) if op[0] == "hcall" else op[2] if op[0] == "burst" else 1) for op in program["clients"][ci]["ops"]
                   if op[0] in ("call", "call2", "batch", "notify", "hcall", "burst"))
        if len(hist.requests) != nops or len(hist.responses) != nops:
            v.append(Violation("C01", "history", "length", "History of client %d has %d requests / %d responses for %d exchanges" % (
                ci, len(hist.requests), len(hist.responses), nops)))
            continue
        for rq, rs in zip(hist.requests, hist.responses):
            ents = by_req.get(rq)
            if not ents:
                v.append(Violation("C01", "history", "request-not-on-wire", "History request %r was never on the wire" % rq[:80]))
            elif ents[0]["resp"] != rs:
                v.append(Violation("C01", "history", "response-differs", "History response %r differs from the wire %r" % (rs[:80], (ents[0]["resp"] or "")[:80])))
    return v, h


class C01Scenario(object):
    name = "system-c01"
    props = ("C01",)
    shrink_budget = 600

    def generate(self, rng):
        return gen_c01(rng)

    def run(self, program, decider, chooser=None):
        from . import env

        env.net_seams(lines=("server", "client", "pool", "jsonclass"))  # shared values are converted by jsonclass.dump on several threads
        s, run, verdict = sysim.execute(program, decider, chooser)
        viol, h = analyse_c01(program, s, run, verdict)
        p = dict(s.probes)
        sv = program["server"]
        p["server_" + sv["kind"]] = 1
        p["transport_" + ("loopback" if sv["kind"] == "dispatcher" else sv["family"])] = 1
        p["server_version_%s" % sv["version"]] = 1
        for c in program["clients"]:
            p["client_version_%s" % c.get("version")] = 1
            for op in c["ops"]:
                p["style_" + op[0]] = 1
                if op[0] in ("hcall", "rebind", "call2"):
                    continue
                ents = [op] if op[0] == "call" else op[1]
                for e in ents:
                    p["params_" + ("keyword" if isinstance(e[2], dict) else "positional")] = 1
                    if len(e[1]) > 1:
                        p["dotted_name"] = 1
                    if any(ord(ch) > 127 for ch in "".join(e[1])):
                        p["unicode_name"] = 1
        if not sv.get("use_jsonclass", True):
            p["jsonclass_off"] = 1
            if "__jsonclass__" in json.dumps(program):
                p["jsonclass_member_as_plain_data"] = 1
        if s.faults.get("short_read"):
            p["short_reads"] = 1
        stats = {"steps": s.step, "switches": s.nswitch, "simtime": s.now, "verdict": verdict.kind if verdict else None,
                 "faults": dict(s.faults), "probes": p,
                 "states": set([(sv["kind"], sv.get("family"), sv["version"], len(program["clients"]))]),
                 "nontrivial": bool(s.nswitch and h.call_args)}
        return s, viol, stats

    def shrink_candidates(self, program):
        p = program
        for ci in range(len(p["clients"]) - 1, -1, -1):
            q = copy.deepcopy(p)
            del q["clients"][ci]
            yield q
        for ci in range(len(p["clients"])):
            for oi in range(len(p["clients"][ci]["ops"]) - 1, -1, -1):
                q = copy.deepcopy(p)
                del q["clients"][ci]["ops"][oi]
                yield q
                op = p["clients"][ci]["ops"][oi]
                if op[0] == "batch":
                    for e in range(len(op[1])):
                        if len(op[1]) > 1:
                            q = copy.deepcopy(p)
                            del q["clients"][ci]["ops"][oi][1][e]
                            yield q
                    for e in range(len(op[1])):
                        if op[1][e][2]:
                            q = copy.deepcopy(p)
                            q["clients"][ci]["ops"][oi][1][e][2] = [] if isinstance(op[1][e][2], list) else {}
                            yield q
                elif op[0] == "call" and op[2]:
                    q = copy.deepcopy(p)
                    q["clients"][ci]["ops"][oi][2] = [] if isinstance(op[2], list) else {}
                    yield q
        sv = p["server"]
        for key, val in (("kind", "dispatcher"), ("kind", "plain"), ("family", "tcp"), ("version", 2.0), ("use_jsonclass", True)):
            if sv.get(key) != val:
                q = copy.deepcopy(p)
                q["server"][key] = val
                if key == "use_jsonclass":
                    for c in q["clients"]:
                        c["use_jsonclass"] = True
                yield q
        if p.get("net") != {"seg": "whole", "delay": 0}:
            q = copy.deepcopy(p)
            q["net"] = {"seg": "whole", "delay": 0}
            yield q
        for ci in range(len(p["clients"])):
            if p["clients"][ci].get("version") is not None:
                q = copy.deepcopy(p)
                q["clients"][ci]["version"] = None
                yield q
        for name in sorted(p.get("methods", {})):
            if p["methods"][name].get("ret") is not None:
                q = copy.deepcopy(p)
                q["methods"][name]["ret"] = None
                yield q


# ---------------------------------------------------------------------------
# C04: notifications


def notif_bodies(rng, tok):
    """Raw request texts with notification shapes the client API cannot produce."""
    m = rng.choice(["echo", "fail", "nope", "two", "echo", "quit", "push"])
    shapes = [
        '{"method": "%s", "params": ["%s"], "id": null}' % (m, tok),
        '{"jsonrpc": "2.0", "method": "%s", "params": ["%s"], "id": ""}' % (m, tok),
        '{"jsonrpc": "2.0", "method": "%s", "params": ["%s"], "id": null}' % (m, tok),
        '{"method": "%s", "params": ["%s"], "id": ""}' % (m, tok),
        '{"jsonrpc": "2.0", "method": "%s", "params": ["%s"]}' % (m, tok),
        '{"jsonrpc": "2.0", "method": "%s", "params": {"token": "%s"}}' % (m, tok),
    ]
    if rng.random() < 0.5:
        return rng.choice(shapes)
    ents = []
    for e in range(rng.randint(1, 4)):
        t = "%se%d" % (tok, e)
        k = rng.random()
        mm = rng.choice(["echo", "fail", "nope", "two", "quit"])
        if k < 0.5:
            ents.append(rng.choice([
                '{"jsonrpc": "2.0", "method": "%s", "params": ["%s"]}' % (mm, t),
                '{"method": "%s", "params": ["%s"], "id": null}' % (mm, t),
                '{"jsonrpc": "2.0", "method": "%s", "params": ["%s"], "id": ""}' % (mm, t),
            ]))
        elif k < 0.8:
            ents.append('{"jsonrpc": "2.0", "method": "%s", "params": ["%s"], "id": "%s"}' % (mm, t, t))
        else:
            ents.append(rng.choice(["1", '{"foo": "bar"}', '{"jsonrpc": "2.0", "method": 5, "id": 4}', "[]"]))
    return "[" + ", ".join(ents) + "]"


def gen_c04_backlog(rng):
    """More than a thousand notifications handed to a notification pool whose only worker is busy: a long backlog,
    every one of them executed exactly once in the end."""
    n = rng.choice([1030, 1100])
    sv = {"kind": "dispatcher", "family": "tcp", "version": 2.0, "npool": [1, 0], "pool_timeout": 2.0}
    methods = {"slow": {"kind": "slow", "d": 1.0}, "push": {"kind": "sink"}}
    ents = [["notify", "push", ["c0o1e%d" % i]] for i in range(n)]
    clients = [{"version": None, "history": False, "ops": [["notify", "slow", ["c0o0"]], ["batch", ents]]}]
    return {"server": sv, "net": {"seg": "whole", "delay": 0}, "methods": methods, "clients": clients, "lifecycle": "serve", "big": True}


def gen_c04(rng):
    if rng.random() < 0.002:
        return gen_c04_backlog(rng)
    kind = rng.choice(["dispatcher", "dispatcher", "plain", "pooled", "pooled-user"])
    sv = {"kind": kind, "family": rng.choice(["tcp", "unix"]), "version": rng.choice([2.0, 2.0, 1.0])}
    if kind == "pooled-user":
        sv["pool"] = [2, 0]
    if kind != "dispatcher" and rng.random() < 0.2:
        sv["http11"] = True  # persistent connections
    if rng.random() < 0.65:
        mx = rng.choice([1, 1, 2, 3])
        sv["npool"] = [mx, rng.randrange(0, mx + 1)]
        sv["pool_timeout"] = rng.choice([0.5, 2.0, 4.0])
    cd = rng.random()
    if cd < 0.15:
        sv["custom_dispatch"] = "server"
    elif cd < 0.35:
        sv["custom_dispatch"] = "direct"
    elif cd < 0.45:
        sv["custom_dispatch"] = "instance"
    methods = {"echo": {"kind": "echo"}, "fail": {"kind": "fail"}, "two": {"kind": "two"},
               "slow": {"kind": "slow", "d": rng.choice([0.5, 1.0])}, "quit": {"kind": "exit"}, "push": {"kind": "sink"}}
    names = ["echo", "echo", "fail", "nope", "two", "slow", "quit", "push"]
    clients = []
    for ci in range(rng.randint(1, 3)):
        ops = []
        for oi in range(rng.randint(1, 4)):
            tok = "c%do%d" % (ci, oi)
            k = rng.random()
            if k < 0.35:
                ops.append(["notify", rng.choice(names), [tok] if rng.random() < 0.8 else {"token": tok}])
            elif k < 0.6:
                ents = []
                for e in range(rng.randint(1, 4)):
                    ents.append([rng.choice(["notify", "notify", "call"]), rng.choice(names), ["%se%d" % (tok, e)]])
                ops.append(["batch", ents])
            elif k < 0.9:
                ops.append(["raw", notif_bodies(rng, tok)])
            else:
                ops.append(["call", rng.choice(names), [tok]])
        clients.append({"version": rng.choice([None, 2.0, 1.0]), "history": False, "ops": ops})
    if sv.get("custom_dispatch") in ("direct", "instance"):
        # a user-written dispatch function that lets SystemExit through is outside what the library promises
        # (it converts exceptions of *its own* dispatcher, which catches everything): keep 'quit' for the default path
        del methods["quit"]
        for c in clients:
            for op in c["ops"]:
                if op[0] in ("notify", "call") and op[1] == "quit":
                    op[1] = "fail"
                elif op[0] == "batch":
                    for e in op[1]:
                        if e[1] == "quit":
                            e[1] = "fail"
                elif op[0] == "raw":
                    op[1] = op[1].replace('"quit"', '"fail"')
    return {"server": sv, "net": {"seg": rng.choice(["whole", "random"]), "delay": 0}, "methods": methods,
            "clients": clients, "lifecycle": "serve"}


def classify_entry(ent):
    """'notification' / 'call' / 'invalid' for one parsed request entry, as the property defines them."""
    if not isinstance(ent, dict):
        return "invalid"
    if "jsonrpc" not in ent and "id" not in ent:
        return "invalid"
    m = ent.get("method")
    params = ent.get("params", [])
    if not m or not isinstance(m, str) or not isinstance(params, (list, dict)):
        return "invalid"
    if "id" not in ent or ent["id"] is None or ent["id"] == "":
        return "notification"
    return "call"


def analyse_c04(program, s, run, verdict):
    v = []
    h = parse(program, s, run)
    if verdict is not None:
        v.append(Violation("C04", "termination", verdict.kind, "%s: %s" % (verdict.kind, verdict.detail)))
        return v, h
    for tid, name, ex in s.thread_errors:
        v.append(Violation("C04", "worker-killed", ex.split("(")[0], "uncaught exception in simulated thread %s: %s" % (name, ex)))
    methods = program["methods"]
    notif_tokens = {}
    for ent in h.wire:
        try:
            req = json.loads(ent["req"])
        except ValueError:
            continue
        if ent["resp"] is None:
            continue
        entries = req if isinstance(req, list) else [req]
        if isinstance(req, list) and not req:
            continue
        kinds = [classify_entry(e) for e in entries]
        for e, k in zip(entries, kinds):
            if k == "notification":
                for t in TOKEN.findall(json.dumps(e.get("params"))):
                    notif_tokens[t] = e
        expected = sum(1 for k in kinds if k != "notification")
        resp = jnorm(ent["resp"])
        if ent.get("status") not in (200, None):
            v.append(Violation("C04", "never-answered", "http-%s" % ent.get("status"),
                               "request with notifications answered with HTTP %s: %s" % (ent.get("status"), ent["req"][:100])))
            continue
        if resp == "<empty>":
            got = 0
            objs = []
        elif isinstance(resp, list):
            got = len(resp)
            objs = resp
        else:
            got = 1
            objs = [resp]
        if "notification" in kinds and got > expected:
            v.append(Violation("C04", "never-answered", "extra-response-object",
                               "%d response object(s) for %d non-notification entries: request %s -> reply %s" % (
                                   got, expected, ent["req"][:140], ent["resp"][:140])))
        # a response object carrying a notification's token is an answer to it
        for o in objs:
            for t in TOKEN.findall(json.dumps(o)):
                if t in notif_tokens:
                    v.append(Violation("C04", "never-answered", "token-echoed", "reply %s answers notification %s" % (json.dumps(o)[:120], t)))
    # client-side: notification calls return None
    for key in sorted(h.ops):
        o = h.ops[key]
        if o["ret"] == INF:
            continue
        if o["kind"] == "notify" and o["out"] != ["value", None]:
            v.append(Violation("C04", "client-returns-none", str(o["out"][0]) + ":" + str(o["out"][1])[:30],
                               "client notification call produced %s instead of None" % (o["out"],)))
    # executed exactly once (after the pools were drained)
    sink = None
    for ev in s.log:
        if ev[2] == "sink":
            sink = ev[3]
    for tok, e in sorted(notif_tokens.items()):
        m = e.get("method")
        params = e.get("params", [])
        n = len(h.calls.get(tok, []))
        if m == "push" and "push" in methods:
            # deque.append(x): observed by its effect
            if isinstance(params, list) and len(params) == 1:
                n = (sink or []).count(tok)
                if n != 1:
                    v.append(Violation("C04", "executed-once", "builtin-count-%d" % min(n, 2),
                                       "notification %s to a bound built-in method took effect %d times" % (tok, n)))
            continue
        runs = m in methods and not (methods[m]["kind"] == "two" and (isinstance(params, dict) or len(params) != 2))
        if runs and n != 1:
            v.append(Violation("C04", "executed-once", "count-%d" % min(n, 2), "notification %s (%s) executed %d times" % (tok, m, n)))
        if not runs and n:
            v.append(Violation("C04", "executed-once", "phantom", "notification %s of %r executed %d times" % (tok, m, n)))
    return v, h


class C04Scenario(C01Scenario):
    name = "system-c04"
    props = ("C04",)

    def generate(self, rng):
        return gen_c04(rng)

    def run(self, program, decider, chooser=None):
        s, run, verdict = sysim.execute(program, decider, chooser)
        viol, h = analyse_c04(program, s, run, verdict)
        p = dict(s.probes)
        sv = program["server"]
        p["server_" + sv["kind"]] = 1
        p["npool_" + ("on" if sv.get("npool") else "off")] = 1
        p["dispatch_" + str(sv.get("custom_dispatch") or "default")] = 1
        tids = set(c[2] for cl in h.calls.values() for c in cl)
        if sv.get("npool") and len(tids) > 1:
            p["notifications_on_pool_workers"] = 1
        for ent in h.wire:
            if ent["req"].startswith("["):
                p["batch_with_notifications"] = 1
            if '"id": ""' in ent["req"]:
                p["empty_string_id"] = 1
            if '"id": null' in ent["req"]:
                p["null_id"] = 1
        stats = {"steps": s.step, "switches": s.nswitch, "simtime": s.now, "verdict": verdict.kind if verdict else None,
                 "faults": dict(s.faults), "probes": p,
                 "states": set([(sv["kind"], bool(sv.get("npool")), str(sv.get("custom_dispatch")), len(program["clients"]))]),
                 "nontrivial": bool(s.nswitch and h.call_args)}
        return s, viol, stats

    def shrink_candidates(self, program):
        p = program
        for ci in range(len(p["clients"]) - 1, -1, -1):
            q = copy.deepcopy(p)
            del q["clients"][ci]
            yield q
        for ci in range(len(p["clients"])):
            for oi in range(len(p["clients"][ci]["ops"]) - 1, -1, -1):
                q = copy.deepcopy(p)
                del q["clients"][ci]["ops"][oi]
                yield q
                op = p["clients"][ci]["ops"][oi]
                if op[0] == "batch" and len(op[1]) > 1:
                    for e in range(len(op[1])):
                        q = copy.deepcopy(p)
                        del q["clients"][ci]["ops"][oi][1][e]
                        yield q
                if op[0] == "raw" and op[1].startswith("["):
                    try:
                        ents = json.loads(op[1])
                    except ValueError:
                        ents = []
                    for e in range(len(ents)):
                        if len(ents) > 1:
                            q = copy.deepcopy(p)
                            q["clients"][ci]["ops"][oi][1] = json.dumps(ents[:e] + ents[e + 1:])
                            yield q
                    if len(ents) == 1:
                        q = copy.deepcopy(p)
                        q["clients"][ci]["ops"][oi][1] = json.dumps(ents[0])
                        yield q
        sv = p["server"]
        for key, val in (("kind", "dispatcher"), ("npool", None), ("custom_dispatch", None), ("version", 2.0), ("family", "tcp")):
            if sv.get(key) not in (val,):
                q = copy.deepcopy(p)
                q["server"][key] = val
                yield q
        if sv.get("npool") and sv["npool"] != [1, 0]:
            q = copy.deepcopy(p)
            q["server"]["npool"] = [1, 0]
            yield q
        if p.get("net") != {"seg": "whole", "delay": 0}:
            q = copy.deepcopy(p)
            q["net"] = {"seg": "whole", "delay": 0}
            yield q


# ---------------------------------------------------------------------------
# C13: replies depend only on the request


def gen_c13(rng):
    k = rng.random()
    if k < 0.004:
        return gen_c13_first_use(rng)
    if k < 0.35:
        return gen_c13_small(rng)
    return gen_c13_full(rng)


def gen_c13_first_use(rng):
    """
    The first two requests a process ever serves, concurrently, from freshly imported modules, under every single
    pre-emption point of the run ("sweep"): whatever the library builds lazily at first use is built here.
    """
    sv = {"kind": "dispatcher", "family": "tcp", "version": rng.choice([2.0, 2.0, 1.0]), "handlers": False}
    methods = {"echo": {"kind": "echo"}, "fail": {"kind": "fail"}, "sub": {"kind": "sub"}}
    m = rng.choice(["echo", "echo", "echo", "fail", "sub", "nope"])
    form = rng.choice(['{"method": "%s", "params": ["%s"], "id": "%s"}', '{"jsonrpc": "2.0", "method": "%s", "params": ["%s"], "id": "%s"}'])
    clients = []
    for ci in range(2):
        tok = "c%do0" % ci
        clients.append({"version": None, "history": False, "ops": [["raw", form % (m, tok, tok)]]})
    return {"server": sv, "net": {"seg": "whole", "delay": 0}, "methods": methods, "clients": clients, "lifecycle": "serve",
            "config_mutations": 0, "cold": True, "sweep": True}


def gen_c13_small(rng):
    """Few short concurrent dispatcher threads: every pre-emption point is likely to be tried."""
    sv = {"kind": "dispatcher", "family": "tcp", "version": rng.choice([2.0, 2.0, 1.0]), "handlers": rng.random() < 0.3}
    methods = {"echo": {"kind": "echo"}, "fail": {"kind": "fail"}, "sub": {"kind": "sub"},
               "bad": {"kind": rng.choice(["baddump", "baddump-lookup", "selfref"])}, "rej": {"kind": "subrejected"}, "inf": {"kind": "inf"}, "mb": {"kind": "mainbean"}}
    clients = []
    for ci in range(rng.randint(2, 3)):
        ops = []
        for oi in range(rng.randint(1, 2)):
            tok = "c%do%d" % (ci, oi)
            m = rng.choice(["echo", "echo", "fail", "sub", "nope", "bad", "rej", "sub", "rpc.nope", "inf", "mb"])
            ops.append(["raw", rng.choice([
                '{"method": "%s", "params": ["%s"], "id": "%s"}' % (m, tok, tok),
                '{"method": "%s", "params": ["%s"], "id": "%s"}' % (m, tok, tok),
                '{"jsonrpc": "2.0", "method": "%s", "params": ["%s"], "id": "%s"}' % (m, tok, tok),
                '{"jsonrpc": %s, "method": "%s", "params": ["%s"], "id": "%s"}' % (rng.choice(["null", '""', "0", "false", "2", '"1.0"']), m, tok, tok),
                # a valid request whose id is a bean of a side-effect-free class: it cannot be echoed as JSON
                '{"method": "%s", "params": ["%s"], "id": {"__jsonclass__": ["decimal.Decimal", ["1.5"]]}}' % (m, tok),
            ])])
        clients.append({"version": None, "history": False, "ops": ops})
    prog = {"server": sv, "net": {"seg": "whole", "delay": 0}, "methods": methods, "clients": clients, "lifecycle": "serve",
            "config_mutations": rng.getrandbits(16)}
    if rng.random() < 0.15:
        prog["cold"] = True  # freshly imported modules: the first requests a process ever serves
    return prog


def gen_c13_full(rng):
    kind = rng.choice(["dispatcher", "dispatcher", "plain", "pooled", "pooled-user"])
    sv = {"kind": kind, "family": rng.choice(["tcp", "unix"]), "version": rng.choice([2.0, 2.0, 1.0])}
    if kind == "pooled-user":
        mx = rng.choice([2, 3, 4])
        sv["pool"] = [mx, rng.randrange(0, mx + 1)]
    if kind != "dispatcher" and rng.random() < 0.2:
        sv["http11"] = True  # persistent connections
    if rng.random() < 0.2:
        sv["npool"] = [2, 0]
    cd = rng.random()
    if cd < 0.15:
        sv["custom_dispatch"] = "direct"
    elif cd < 0.3:
        sv["custom_dispatch"] = "instance"
    methods = {"echo": {"kind": "echo"}, "fail": {"kind": "fail"}, "two": {"kind": "two"}, "fault": {"kind": "fault"},
               "slow": {"kind": "slow", "d": rng.choice([0.25, 0.5, 1.0])}, "sub": {"kind": "sub"},
               "bad": {"kind": rng.choice(["baddump", "baddump-lookup", "selfref"])},
               "err": {"kind": "sharedfault"}, "rej": {"kind": "subrejected"}, "quit": {"kind": "exit"}}
    methods["inf"] = {"kind": "inf"}
    methods["mb"] = {"kind": "mainbean"}
    names = ["echo", "echo", "fail", "nope", "two", "slow", "slow", "fault", "sub", "bad", "err", "rej", "sub", "rpc.nope", "rpc.echo", "inf", "mb"]
    if not sv.get("custom_dispatch"):
        names.append("quit")  # sys.exit() inside a method: an error reply like any other (default dispatch only)
    sv["handlers"] = rng.random() < 0.4
    clients = []
    for ci in range(rng.randint(1, 4)):
        ops = []
        for oi in range(rng.randint(2, 7)):
            tok = "c%do%d" % (ci, oi)
            k = rng.random()
            if k < 0.4:
                ops.append(["call", rng.choice(names), [tok]])
            elif k < 0.5:
                ops.append(["notify", rng.choice(names), [tok]])
            elif k < 0.65:
                ents = []
                for e in range(rng.randint(1, 3)):
                    ents.append([rng.choice(["notify", "call", "call"]), rng.choice(names), ["%se%d" % (tok, e)]])
                ops.append(["batch", ents])
            else:
                m = rng.choice(names)
                ops.append(["raw", rng.choice([
                    '{"method": "%s", "params": ["%s"], "id": "%s"}' % (m, tok, tok),
                    '{"jsonrpc": "2.0", "method": "%s", "params": ["%s"], "id": "%s"}' % (m, tok, tok),
                    '{"method": "%s", "params": ["%s"], "id": 7}' % (m, tok),
                    '{"jsonrpc": %s, "method": "%s", "params": ["%s"], "id": "%s"}' % (rng.choice(["null", '""', "0", "false", "2", '"1.0"']), m, tok, tok),
                    '[{"method": "%s", "params": ["%se0"], "id": 1}, {"jsonrpc": "2.0", "method": "echo", "params": ["%se1"], "id": 2}]' % (m, tok, tok),
                    '{"method": 5, "id": 3}', "nonsense", "[]", '{"jsonrpc": "2.0", "method": "%s", "params": 7, "id": 2}' % m,
                ])])
        clients.append({"version": rng.choice([None, 2.0, 1.0, 1.0]), "history": False, "ops": ops,
                        "content_type": rng.choice(["application/json-rpc", "application/json-rpc", "application/json", "application/jsonrequest"])})
    return {"server": sv, "net": {"seg": rng.choice(["whole", "random"]), "delay": 0}, "methods": methods,
            "clients": clients, "lifecycle": "serve", "config_mutations": rng.getrandbits(16), "debug_log": rng.random() < 0.15}


def form_of(obj):
    if not isinstance(obj, dict):
        return "?"
    if "jsonrpc" in obj:
        return "2.0" if ("result" in obj) != ("error" in obj) else "2.0-malformed"
    if "result" in obj and "error" in obj:
        return "1.0"
    return "?"


def analyse_c13(program, s, run, verdict):
    v = []
    h = parse(program, s, run)
    if verdict is not None:
        v.append(Violation("C13", "termination", verdict.kind, "%s: %s" % (verdict.kind, verdict.detail)))
        return v, h
    for tid, name, ex in s.thread_errors:
        v.append(Violation("C13", "thread-crash", ex.split("(")[0], "uncaught exception in simulated thread %s: %s" % (name, ex)))
    sver = program["server"]["version"]
    for ent in h.wire:
        ref = h.ref.get(ent["key"])
        if ent["resp"] is None or ref is None:
            continue
        failed = ent.get("status") not in (200, None)
        if failed:
            if not str(ref).startswith("EXC:"):
                v.append(Violation("C13", "history-independent", "http-%s" % ent.get("status"),
                                   "answered with HTTP %s, alone it is answered normally: %s" % (ent.get("status"), ent["req"][:80])))
            # (the form rule below holds for whatever JSON the reply carries, an error status included)
        elif jnorm(ent["resp"]) != jnorm(ref):
            v.append(Violation("C13", "history-independent", "reply-differs-from-fresh-server",
                               "reply %s differs from the reply of a fresh server to the same request %s (request %s)" % (
                                   ent["resp"][:120], str(ref)[:120], ent["req"][:80])))
        # On a server configured for 1.0 both halves of the rule say the same: whatever was received - valid, invalid,
        # not even JSON - every response object is in 1.0 form
        if float(sver) < 2:
            robjs0 = jnorm(ent["resp"])
            for o in (robjs0 if isinstance(robjs0, list) else [robjs0]):
                if isinstance(o, dict) and form_of(o) != "1.0":
                    v.append(Violation("C13", "response-form", "1.0-server-answered-in-%s-form" % form_of(o),
                                       "server version %s: request %s answered %s" % (sver, ent["req"][:100], json.dumps(o)[:120])))
                    break
        # the explicit form rule, for structurally valid request entries
        try:
            req = json.loads(ent["req"])
        except ValueError:
            continue
        resp = jnorm(ent["resp"])
        entries = req if isinstance(req, list) else [req]
        robjs = resp if isinstance(resp, list) else [resp]
        by_id = {}
        for o in robjs:
            if isinstance(o, dict) and isinstance(o.get("id"), (str, int)) and not isinstance(o.get("id"), bool):
                by_id.setdefault(json.dumps(o.get("id")), []).append(o)
        for e in entries:
            if classify_entry(e) != "call":
                # an invalid entry that carries "jsonrpc" and an id is answered in the server's own form too (an invalid
                # entry *without* "jsonrpc" is not judged on a 2.0 server: the library, and the examples of the 2.0
                # specification in its test suite, answer it in the server's form)
                if not (isinstance(e, dict) and "jsonrpc" in e and isinstance(e.get("id"), (str, int)) and
                        not isinstance(e.get("id"), bool) and classify_entry(e) == "invalid"):
                    continue
            rid = json.dumps(e["id"]) if isinstance(e["id"], (str, int)) else None
            objs = by_id.get(rid, []) if rid is not None else []
            if not isinstance(req, list) and isinstance(resp, dict):
                objs = [resp]  # a single request has a single reply, whatever id it carries
            if len(objs) != 1:
                continue
            want = "1.0" if ("jsonrpc" not in e or float(sver) < 2) else "2.0"
            got = form_of(objs[0])
            if got != want:
                v.append(Violation("C13", "response-form", "%s-request-answered-in-%s-form" % ("1.0" if "jsonrpc" not in e else "2.0", got),
                                   "server version %s: request %s answered %s" % (sver, json.dumps(e)[:100], json.dumps(objs[0])[:120])))
    for ev in s.log:
        if ev[2] == "config.same":
            if not ev[3]:
                v.append(Violation("C13", "config-untouched", "server-config-changed", "serving requests changed the server's Config"))
            if not ev[4]:
                v.append(Violation("C13", "config-untouched", "default-config-changed", "serving requests changed config.DEFAULT"))
        if ev[2] == "config.copy" and not ev[3]:
            v.append(Violation("C13", "config-copy", ev[4], "Config.copy(): %s" % ev[5]))
    return v, h


def config_copy_fragment(run):
    """Mutations of a copy never show in the original and vice versa."""
    import random

    import jsonrpclib.config as cfgmod

    s = run.s
    rng = random.Random(run.p.get("config_mutations", 0))

    class K(object):
        pass

    orig = cfgmod.Config(version=rng.choice([1.0, 2.0]), use_jsonclass=rng.choice([True, False]))
    orig.classes.add(K, "K0")
    orig.serialize_handlers[K] = lambda o: "h0"
    a0 = sysim.snapshot_config(orig)
    cp = orig.copy()

    def mutate(c, tag):
        for _ in range(rng.randint(1, 4)):
            k = rng.randrange(7)
            if k == 0:
                c.version = 1.0 if c.version >= 2 else 2.0
            elif k == 1:
                c.classes["N" + tag] = K
            elif k == 2:
                c.classes.pop("K0", None)
            elif k == 3:
                c.serialize_handlers[int] = lambda o: tag
            elif k == 4:
                c.serialize_handlers.pop(K, None)
            elif k == 5:
                c.use_jsonclass = not c.use_jsonclass
            else:
                c.content_type = "application/" + tag
                c.user_agent = "ua-" + tag
                c.serialize_method = "_ser_" + tag
                c.ignore_attribute = "_ign_" + tag

    # nothing of the copy is looked at before the first mutation: a copy that duplicates lazily must still be independent
    if rng.random() < 0.5:
        mutate(orig, "orig")
        a1 = sysim.snapshot_config(orig)
        b0 = sysim.snapshot_config(cp)
        ok = b0 == a0
        s.emit("config.copy", ok, "original-mutation-leaks" if not ok else "equal",
               "" if ok else "after changing the original, the copy is %s instead of the state at copy time %s" % (
                   sysim.describe_snapshot(b0), sysim.describe_snapshot(a0)))
        mutate(cp, "copy")
        ok = sysim.snapshot_config(orig) == a1
        s.emit("config.copy", ok, "copy-mutation-leaks", "changing the copy changed the original")
    else:
        mutate(cp, "copy")
        b1 = sysim.snapshot_config(cp)
        a1 = sysim.snapshot_config(orig)
        ok = a1 == a0
        s.emit("config.copy", ok, "copy-mutation-leaks" if not ok else "equal",
               "" if ok else "after changing the copy, the original is %s instead of %s" % (
                   sysim.describe_snapshot(a1), sysim.describe_snapshot(a0)))
        mutate(orig, "orig")
        ok = sysim.snapshot_config(cp) == b1
        s.emit("config.copy", ok, "original-mutation-leaks", "changing the original changed the copy")


class C13Scenario(C04Scenario):
    name = "system-c13"
    props = ("C13",)

    def generate(self, rng):
        return gen_c13(rng)

    def run(self, program, decider, chooser=None):
        if program.get("cold"):
            env.cold_start()  # freshly imported modules, as in sysim.execute()
        s = core.Sched(decider, step_cap=160000, horizon=sysim.FAR * 8 + 2048, chooser=chooser)
        run = sysim.SysRun(program, s)

        def root():
            run.root()
            config_copy_fragment(run)

        with env.debug_logging(program.get("debug_log")):
            verdict = s.run(root)
        if program.get("debug_log"):
            s.probes["library_logging_at_debug_level"] = 1
        viol, h = analyse_c13(program, s, run, verdict)
        p = dict(s.probes)
        sv = program["server"]
        p["server_" + sv["kind"]] = 1
        p["server_version_%s" % sv["version"]] = 1
        p["dispatch_" + str(sv.get("custom_dispatch") or "default")] = 1
        ev = []
        for idx, e in enumerate(s.log):
            if e[2] == "call.begin":
                ev.append((idx, 1))
            elif e[2] == "call.end":
                ev.append((idx, -1))
        cur = mx = 0
        for _, d in ev:
            cur += d
            mx = max(mx, cur)
        if mx >= 2:
            p["two_dispatches_in_flight"] = 1
        forms = set()
        for ent in h.wire:
            if '"jsonrpc"' in ent["req"]:
                forms.add("2.0")
            elif ent["req"].startswith("{") or ent["req"].startswith("["):
                forms.add("1.0")
        if len(forms) == 2:
            p["mixed_1.0_and_2.0_requests"] = 1
        if any(c.get("content_type", "application/json-rpc") != "application/json-rpc" for c in program["clients"]):
            p["client_with_other_content_type"] = 1
        stats = {"steps": s.step, "switches": s.nswitch, "simtime": s.now, "verdict": verdict.kind if verdict else None,
                 "faults": dict(s.faults), "probes": p,
                 "states": set([(sv["kind"], sv["version"], str(sv.get("custom_dispatch")), min(mx, 3))]),
                 "nontrivial": bool(s.nswitch and h.call_args)}
        return s, viol, stats
