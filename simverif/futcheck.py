"""
C16 - FutureResult completion protocol: generated scripts of
set_callback / execute / done / result from 2-4 simulated threads, line-level
pre-emption inside threadpool.py, oracle over the recorded history.

program = {"task": [kind, duration], "threads": [[op, ...], ...]}
ops: ["exec"]  ["cb", kind]  ["done"]  ["res", timeout|null]  ["sleep", d]
     callback kinds: ret | raise | arity
"""

import copy

from . import core, env
from .runner import Violation

INF = float("inf")


class TaskError(Exception):
    pass


class EmptyGroupError(TaskError):
    """A legal exception whose truth value is False (an aggregate error without sub-errors)."""

    def __len__(self):
        return 0


class TaskAbort(BaseException):
    """What a task that calls sys.exit() - or is interrupted - ends with: an exception that is not an Exception."""


class CallbackError(Exception):
    pass


def gen_program(rng):
    task = [rng.choice(["ret", "ret", "raise", "raise", "raise-falsy", "ret-exc", "raise-base"]), rng.choice([0, 0, 1.0, 2.0])]
    nthreads = rng.randint(2, 4)
    threads = []
    execer = rng.randrange(nthreads)

    def ops(n, allow_untimed):
        out = []
        for _ in range(n):
            k = rng.random()
            if k < 0.45:
                op = ["cb", rng.choice(["ret", "ret", "raise", "arity", "typeerr-noextra", "ret-noextra", "rereg", "ret-shared", "ret-shared", "reads-result"])]
                if rng.random() < 0.3:
                    op.append(rng.choice(["partial", "object", "boundmethod", "falsy-object"]))
                out.append(op)
            elif k < 0.6:
                out.append(["done"])
            elif k < 0.85:
                to = rng.choice([0, 0.5, 1.0, 1.0, 2.0, 4.0, None])
                if to is None and not allow_untimed:
                    to = 1.0
                out.append(["res", to])
            else:
                out.append(["sleep", rng.choice([0.5, 1.0, 2.0])])
        return out

    for ti in range(nthreads):
        if ti == execer:
            t = ops(rng.randint(0, 2), False) + [["exec"]] + ops(rng.randint(0, 2), True)
        else:
            t = ops(rng.randint(1, 3), True)
        threads.append(t)
    return {"task": task, "threads": threads}


class FutRun(object):
    def __init__(self, program, sched):
        self.p = program
        self.s = sched
        self.tp = env.pool_seams()
        # "ret-exc": the task *returns* an exception object (a collect-errors helper); that is a result, not a failure
        self.obj = ValueError("returned, not raised") if program["task"][0] == "ret-exc" else ["task-result"]
        self.exc = EmptyGroupError("task-exception") if program["task"][0] == "raise-falsy" else TaskError("task-exception")
        if program["task"][0] == "raise-base":
            self.exc = TaskAbort("task-exception")

    def task(self, *args, **kwargs):
        s = self.s
        s.emit("task.begin", list(args) == [1, "a"], kwargs == {"k": 2})
        try:
            d = self.p["task"][1]
            if d:
                s.sleep(d)
            if self.p["task"][0] not in ("ret", "ret-exc"):
                raise self.exc
            return self.obj
        finally:
            s.emit("task.exit")

    def make_cb(self, reg, kind, shape=None):
        if kind == "ret-shared":
            # one and the same callable registered several times, each time with another extra: an invocation is
            # attributed to the registration whose extra it received
            s = self.s
            run = self
            if getattr(self, "_shared", None) is None:
                def shared(result, exception, extra):
                    s.emit("cb.call", str(extra), result is run.obj, result is None, exception is run.exc, exception is None, True)

                class Listener(object):
                    def on_done(self, result, exception, extra):
                        shared(result, exception, extra)

                self._shared = (shared, Listener())
            return self._shared[1].on_done if shape == "boundmethod" else self._shared[0]
        cb = self._make_cb(reg, kind)
        if shape == "partial":
            import functools

            return functools.partial(cb)
        if shape == "object":
            class Callable(object):
                def __call__(self, *args):
                    return cb(*args)

            return Callable()
        if shape == "falsy-object":
            # a callable object whose truth value is False (a collector that is still empty)
            class Collector(object):
                def __len__(self):
                    return 0

                def __call__(self, *args):
                    return cb(*args)

            return Collector()
        if shape == "boundmethod":
            # a method of an object nobody else refers to
            class Listener(object):
                def on_done(self, *args):
                    return cb(*args)

            return Listener().on_done
        return cb

    def _make_cb(self, reg, kind):
        s = self.s
        run = self

        def record(result, exception, extra):
            s.emit("cb.call", reg, result is run.obj, result is None, exception is run.exc, exception is None,
                   extra == reg)

        if kind == "arity":
            def cb(result):  # wrong arity on purpose
                s.emit("cb.call", reg, False, False, False, False, False)
            return cb
        if kind == "raise":
            def cb(result, exception, extra):
                record(result, exception, extra)
                raise CallbackError(reg)
            return cb
        if kind == "reads-result":
            # a callback that asks its own future for the outcome: the future is done, so result() answers at once
            def cb(result, exception, extra):
                try:
                    val = run.fut.result(0)
                    seen = ("value", val is run.obj)
                except core.SimAbort:
                    raise
                except BaseException as ex:
                    seen = ("raised", ex is run.exc)
                want = ("value", True) if run.p["task"][0] in ("ret", "ret-exc") else ("raised", True)
                s.emit("cb.call", reg, result is run.obj, result is None, exception is run.exc, exception is None,
                       extra == reg and seen == want)
            return cb
        if kind == "rereg":
            # a callback that registers another callback on the same future while it runs
            inner_reg = reg + "i"

            def inner(result, exception, extra):
                s.emit("cb.call", inner_reg, result is run.obj, result is None, exception is run.exc, exception is None,
                       extra == inner_reg)

            def cb(result, exception, extra):
                record(result, exception, extra)
                run.fut.set_callback(inner, inner_reg)
            return cb
        if kind in ("typeerr-noextra", "ret-noextra"):
            # registered without an extra argument; tolerant signature; may fail with a TypeError of its own
            def cb(result, exception, extra=None):
                s.emit("cb.call", reg, result is run.obj, result is None, exception is run.exc, exception is None, extra is None)
                if kind == "typeerr-noextra":
                    raise TypeError("unsupported operand inside the callback")
            return cb

        def cb(result, exception, extra):
            record(result, exception, extra)
        return cb

    def body(self, ti):
        s = self.s
        fut = self.fut
        for oi, op in enumerate(self.p["threads"][ti]):
            name = op[0]
            reg = "r%d.%d" % (ti, oi)
            s.emit("op.call", ti, oi, name, s.now)
            out = "ok"
            try:
                if name == "exec":
                    try:
                        fut.execute(self.task, [1, "a"], {"k": 2})
                        out = "returned"
                    except (TaskError, TaskAbort) as ex:
                        out = "raised:%s" % (ex is self.exc)
                elif name == "cb":
                    if op[1].endswith("-noextra"):
                        fut.set_callback(self.make_cb(reg, op[1], op[2] if len(op) > 2 else None))
                    else:
                        fut.set_callback(self.make_cb(reg, op[1], op[2] if len(op) > 2 else None), reg)
                elif name == "done":
                    out = "done:%s" % bool(fut.done())
                elif name == "res":
                    try:
                        val = fut.result(op[1])
                        out = "value:%s" % (val is self.obj)
                    except OSError:
                        out = "timeout"
                    except (TaskError, TaskAbort) as ex:
                        out = "raised:%s" % (ex is self.exc)
                elif name == "sleep":
                    s.sleep(op[1])
            except core.SimAbort:
                raise
            except BaseException as ex:
                out = "exc:%s" % type(ex).__name__
            s.emit("op.ret", ti, oi, name, out, s.now)

    def root(self):
        s = self.s
        self.fut = self.tp.FutureResult()
        sts = []
        for ti in range(1, len(self.p["threads"])):
            sts.append(s.spawn(lambda ti=ti: self.body(ti), "client%d" % ti, "client"))
        self.body(0)
        for st in sts:
            s.yield_point("join")
            while st.state != core.DONE:
                s.block(st.joiners, None, "client")
        # final observations, long after completion
        s.emit("final", bool(self.fut.done()))


def analyse(program, log, verdict, thread_errors=()):
    v = []
    ops = {}
    cbs = {}
    B = INF  # task body exit
    exec_op = None
    args_ok = True
    final_done = None
    for idx, ev in enumerate(log):
        kind = ev[2]
        if kind == "op.call":
            ti, oi, name, now = ev[3:7]
            ops[(ti, oi)] = {"ti": ti, "oi": oi, "name": name, "call": idx, "ret": INF, "out": None, "t0": now, "t1": None,
                             "op": program["threads"][ti][oi]}
        elif kind == "op.ret":
            ti, oi, name, out, now = ev[3:8]
            o = ops[(ti, oi)]
            o["ret"] = idx
            o["out"] = out
            o["t1"] = now
        elif kind == "task.begin":
            args_ok = ev[3] and ev[4]
        elif kind == "task.exit":
            B = idx
        elif kind == "cb.call":
            cbs.setdefault(ev[3], []).append((idx,) + tuple(ev[4:]))
        elif kind == "final":
            final_done = ev[3]
    for o in ops.values():
        if o["name"] == "exec":
            exec_op = o
    T1 = exec_op["ret"] if exec_op else INF
    tk = program["task"][0]
    if tk == "ret-exc":
        tk = "ret"
    if verdict is not None and verdict.kind in ("deadlock", "stall"):
        pend = sorted(set(o["name"] for o in ops.values() if o["ret"] == INF))
        v.append(Violation("C16", "termination", "%s:%s" % (verdict.kind, "+".join(pend)),
                           "%s with pending %s: %s" % (verdict.kind, pend, verdict.detail)))
    for tid, name, ex in thread_errors:
        v.append(Violation("C16", "harness-thread-crash", ex.split("(")[0], "uncaught %s in %s" % (ex, name)))
    if not args_ok:
        v.append(Violation("C16", "execute-args", "changed", "task received other arguments"))
    # execute's own outcome is never changed by callbacks
    if exec_op and exec_op["ret"] != INF:
        want = "returned" if tk == "ret" else "raised:True"
        if exec_op["out"] != want:
            v.append(Violation("C16", "callback-contained", "execute-outcome-changed",
                               "execute() ended with %s instead of %s" % (exec_op["out"], want)))
    if final_done is False and T1 != INF:
        v.append(Violation("C16", "done", "false-after-completion", "done() False after the task finished"))
    for key in sorted(ops):
        o = ops[key]
        if o["ret"] == INF:
            continue
        out = o["out"]
        if o["name"] == "done":
            if out == "done:True" and o["ret"] < B:
                v.append(Violation("C16", "done", "true-before-finish", "done() True before the task body had finished"))
            if out == "done:False" and o["call"] > T1:
                v.append(Violation("C16", "done", "false-after-completion", "done() False after execute() had returned"))
        elif o["name"] == "res":
            to = o["op"][1]
            if out.startswith("exc:"):
                v.append(Violation("C16", "result", "raises-other", "result() raised %s" % out))
            elif out == "timeout":
                if to is None:
                    v.append(Violation("C16", "result", "timeout-without-timeout", "result() raised OSError without a timeout"))
                else:
                    if o["t1"] - o["t0"] < to or o["t1"] - o["t0"] > to + 1.0:  # never early; a second of slack for polling implementations
                        v.append(Violation("C16", "result", "timeout-wrong-time",
                                           "result(%r) raised OSError after %r virtual seconds" % (to, o["t1"] - o["t0"])))
                    if o["call"] > T1:
                        v.append(Violation("C16", "result", "timeout-after-completion",
                                           "result(%r) raised OSError although the task had finished before the call" % (to,)))
                    elif o["ret"] > T1 and o["t1"] > exec_op["t1"]:
                        v.append(Violation("C16", "result", "missed-completion",
                                           "result(%r) timed out at t=%r although the task completed at t=%r" % (to, o["t1"], exec_op["t1"])))
            else:
                if o["ret"] < B:
                    v.append(Violation("C16", "result", "early", "result() returned before the task body had finished"))
                want = "value:True" if tk == "ret" else "raised:True"
                if out != want:
                    v.append(Violation("C16", "result", "inconsistent",
                                       "result() gave %s, the task's outcome is %s" % (out, want)))
        elif o["name"] == "cb":
            if out != "ok":
                v.append(Violation("C16", "callback-contained", "set_callback-raises", "set_callback() raised %s" % out))
    # callback invocations per registration
    regs = [o for o in ops.values() if o["name"] == "cb"]
    for o in sorted(regs, key=lambda o: o["call"]):
        reg = "r%d.%d" % (o["ti"], o["oi"])
        calls = cbs.get(reg, [])
        kind = o["op"][1]
        if len(calls) > 1:
            v.append(Violation("C16", "callback-once", "twice", "callback %s (%s) invoked %d times" % (reg, kind, len(calls))))
        # another registration may replace this one unless it ended before this one began
        # or began after the completion was over
        superseded = any(p is not o and p["ret"] > o["call"] and p["call"] < T1 for p in regs)
        if o["ret"] != INF and T1 != INF and not superseded and len(calls) == 0 and kind != "arity":
            v.append(Violation("C16", "callback-once", "never", "callback %s (%s) was never invoked" % (reg, kind)))
        for c in calls:
            idx, is_obj, res_none, is_exc, exc_none, extra_ok = c
            if kind == "arity":
                continue
            if idx < B:
                v.append(Violation("C16", "callback-once", "before-finish", "callback %s invoked before the task finished" % reg))
            good = (is_obj and exc_none) if tk == "ret" else (res_none and is_exc)
            if not good:
                v.append(Violation("C16", "callback-args", "outcome", "callback %s received a wrong (result, exception) pair" % reg))
            if not extra_ok:
                v.append(Violation("C16", "callback-args", "extra", "callback %s received the extra of another registration" % reg))
        if kind == "rereg" and calls:
            inner = cbs.get(reg + "i", [])
            if len(inner) != 1:
                v.append(Violation("C16", "callback-once", "registered-from-callback-%d" % min(len(inner), 2),
                                   "the callback registered by callback %s while it ran was invoked %d times" % (reg, len(inner))))
            for c in inner:
                idx, is_obj, res_none, is_exc, exc_none, extra_ok = c
                good = (is_obj and exc_none) if tk == "ret" else (res_none and is_exc)
                if not good or not extra_ok:
                    v.append(Violation("C16", "callback-args", "registered-from-callback", "callback registered by %s received wrong arguments" % reg))
    info = {"B": B, "T1": T1, "regs": regs, "cbs": cbs, "ops": ops}
    return v, info


class FutScenario(object):
    name = "future"
    props = ("C16",)

    def generate(self, rng):
        return gen_program(rng)

    def run(self, program, decider, chooser=None):
        s = core.Sched(decider, step_cap=20000, horizon=4096.0)
        run = FutRun(program, s)
        verdict = s.run(run.root)
        viol, info = analyse(program, s.log, verdict, s.thread_errors)
        p = dict(s.probes)
        B, T1 = info["B"], info["T1"]
        for o in info["regs"]:
            if o["call"] < T1 and o["ret"] > B:
                p["set_callback_overlapped_completion"] = 1
            if o["call"] > T1:
                p["callback_registered_after_completion"] = 1
            if o["ret"] < B:
                p["callback_registered_before_completion"] = 1
            if o["op"][1] == "raise" and info["cbs"].get("r%d.%d" % (o["ti"], o["oi"])):
                p["raising_callback_invoked"] = 1
            if o["op"][1] == "rereg" and info["cbs"].get("r%d.%di" % (o["ti"], o["oi"])):
                p["callback_registered_from_callback"] = 1
        if sum(1 for o in info["regs"] if o["op"][1] == "ret-shared" and o["ret"] < B) > 1:
            p["same_callable_registered_twice_before_completion"] = 1
        for o in []:
            pass
        for o in info["ops"].values():
            if o["name"] == "res" and o["out"] == "timeout":
                p["result_timeout"] = 1
            if o["name"] == "res" and o["out"] and o["out"] != "timeout" and o["call"] < B:
                p["result_waited_for_completion"] = 1
            if o["name"] == "done" and o["out"] == "done:False":
                p["done_false_seen"] = 1
        nregs = len(info["regs"])
        stats = {"steps": s.step, "switches": s.nswitch, "simtime": s.now,
                 "verdict": verdict.kind if verdict else None, "faults": dict(s.faults), "probes": p,
                 "states": set([(nregs, len(info["cbs"]), B != INF)]),
                 "nontrivial": bool(s.nswitch and B != INF)}
        return s, viol, stats

    def shrink_candidates(self, program):
        p = program
        for ti in range(len(p["threads"]) - 1, -1, -1):
            if not any(o[0] == "exec" for o in p["threads"][ti]) and len(p["threads"]) > 1:
                q = copy.deepcopy(p)
                del q["threads"][ti]
                yield q
        for ti in range(len(p["threads"])):
            for oi in range(len(p["threads"][ti]) - 1, -1, -1):
                if p["threads"][ti][oi][0] == "exec":
                    continue
                q = copy.deepcopy(p)
                del q["threads"][ti][oi]
                yield q
        if p["task"][1]:
            q = copy.deepcopy(p)
            q["task"][1] = 0
            yield q
        if p["task"][0] != "ret":
            q = copy.deepcopy(p)
            q["task"][0] = "ret"
            yield q
        for ti in range(len(p["threads"])):
            for oi, op in enumerate(p["threads"][ti]):
                if op[0] == "cb" and op[1] != "ret":
                    q = copy.deepcopy(p)
                    q["threads"][ti][oi][1] = "ret"
                    yield q
