"""
Full-system simulation: k real client proxies <-> simulated network <-> one
real server (plain / pooled / bare dispatcher), driven by a JSON program.

program = {
  "server": {"kind": "plain"|"pooled"|"pooled-user"|"dispatcher", "family": "tcp"|"unix",
             "pool": [max, min], "npool": null|[max, min], "version": 2.0|1.0,
             "custom_dispatch": bool},
  "net": {"seg": "whole"|"small"|"random", "delay": int},
  "methods": {name: {"kind": "echo"|"fail"|"slow"|"gate"|"const", "d": float, "gate": str, "ret": value}},
  "instance": {dotted name: same as methods}       # reached through register_instance
  "clients": [{"version": 2.0|1.0|null, "history": bool, "ops": [op, ...]}, ...],
  "lifecycle": "serve" | "never-served" | "shutdown-inflight" | "handle-loop",
}
client ops:
  ["call", method, params]            params list or dict
  ["notify", method, params]
  ["batch", [["call"|"notify", method, params], ...]]
  ["raw", body text]                  sent with http.client directly
  ["sleep", d]
"""

import json

from . import core, env, simnet

FAR = 48.0


class MethodError(ValueError):
    pass


class _Obj(object):
    pass


class _EmptyService(object):
    """A registered instance whose truth value is False (a container-like service that holds nothing yet)."""

    def __len__(self):
        return 0


class _Base(object):
    """A class with a serialisation handler registered in the server's Config."""


class _Sub(_Base):
    def __init__(self):
        self.x = 1


class _SubRejected(_Base):
    """An instance the serialisation handler of its base class refuses (the handler raises)."""

    def __init__(self):
        self.x = 2


class _MainBean(object):
    """An instance of a class defined in the application's main script."""

    __module__ = "__main__"

    def __init__(self):
        self.v = 3


class _BadDump(object):
    """An object whose conversion to JSON fails inside jsonclass.dump."""

    def _serialize(self):
        raise ValueError("cannot be serialised")


class _BadDumpLookup(object):
    """Same, failing with an exception that is neither a TypeError nor a ValueError."""

    def _serialize(self):
        raise LookupError("no serialiser registered for this object")


def _base_handler(obj, serialize_method, ignore_attribute, ignore, config):
    if isinstance(obj, _SubRejected):
        raise ValueError("this value cannot be converted")
    return {"handled": type(obj).__name__}


def parse_http(data):
    """Splits a byte transcript into HTTP messages: [(start line, headers dict, body bytes)]."""
    out = []
    pos = 0
    n = len(data)
    while pos < n:
        end = data.find(b"\r\n\r\n", pos)
        if end < 0:
            out.append((bytes(data[pos:]).split(b"\r\n")[0].decode("latin-1"), {}, None))
            break
        head = bytes(data[pos:end]).decode("latin-1").split("\r\n")
        hdrs = {}
        hlist = []
        for line in head[1:]:
            if ":" in line:
                k, v = line.split(":", 1)
                hdrs[k.strip().lower()] = v.strip()
                hlist.append((k.strip(), v.strip()))
        body_start = end + 4
        cl = hdrs.get("content-length")
        if cl is not None and cl.isdigit():
            body = bytes(data[body_start:body_start + int(cl)])
            pos = body_start + int(cl)
        else:
            body = bytes(data[body_start:])
            pos = n
        out.append((head[0], hdrs, body, hlist))
    return out


class LoopbackTransport(object):
    """In-process transport: hands the request text to a bare dispatcher."""

    def __init__(self, dispatcher, run):
        self.dispatcher = dispatcher
        self.run = run
        self.headers = []

    def push_headers(self, headers):
        self.headers.append(headers)

    def pop_headers(self, headers):
        self.headers.pop()

    def request(self, host, handler, request_body, verbose=0):
        s = self.run.s
        s.yield_point("loopback")
        ent = {"req": request_body, "resp": None}
        self.run.wire.append(ent)
        resp = self.dispatcher._marshaled_dispatch(request_body, self.run.loop_dispatch())
        ent["resp"] = resp
        self.run.wire_done.append(ent)  # order in which the exchanges ended (differs from the order they began when they nest)
        return resp

    def close(self):
        pass


class SysRun(object):
    def __init__(self, program, sched):
        self.p = program
        self.s = sched
        self.jc, self.js = env.net_seams()
        self.tp = env.pool_seams()
        self.gates = {}
        self.all_open = False
        self.server = None
        self.user_pool = None
        self.npool = None
        self.url = None
        self.wire = []  # loopback transcript
        self.wire_done = []
        self.histories = {}
        self.ref_mode = False
        self.ref_calls = []
        self.shared_pool = False
        self.sink = None

    # -- gates -------------------------------------------------------------------
    def gate_wait(self, name):
        s = self.s
        g = self.gates.setdefault(name, {"open": self.all_open, "w": []})
        s.yield_point("gate")
        while not g["open"]:
            s.block(g["w"], None, "gate %s" % name)

    def open_gates(self):
        self.all_open = True
        for g in self.gates.values():
            if not g["open"]:
                g["open"] = True
                self.s.wake_all(g["w"])

    # -- registered callables ----------------------------------------------------
    def make_method(self, name, spec):
        run = self
        s = self.s

        def method(*args, **kwargs):
            if run.ref_mode:
                run.ref_calls.append((name, json.dumps([list(args), kwargs], sort_keys=True)))
            else:
                s.emit("call.begin", name, json.dumps([list(args), kwargs], sort_keys=True, ensure_ascii=True))
            try:
                kind = spec["kind"]
                if not run.ref_mode:
                    if kind == "slow" or spec.get("d"):
                        s.sleep(spec.get("d", 1.0))
                    elif kind == "gate":
                        run.gate_wait(spec.get("gate", "g"))
                if kind == "fail":
                    raise MethodError("boom %s" % name)
                if kind == "const":
                    return spec.get("ret")
                if kind == "shared":
                    return run.shared_object(spec.get("ret"))
                if kind == "exit":
                    raise SystemExit(3)
                if kind == "relay":
                    # a served method that calls another method through a second proxy, which records into the same
                    # History as the proxy of the caller (nested exchanges)
                    if run.ref_mode:
                        return ["relayed", spec.get("ret")]
                    return ["relayed", getattr(run.relay_proxy(), spec["inner"])(*args)]
                if kind == "shutdown":
                    # the usual "stop" remote procedure of a pooled server: the method runs on a pool worker, not on
                    # the serving thread, and asks the serving loop to end
                    if not run.ref_mode:
                        run.server.shutdown()
                    return ["stopping"] + list(args)
                if kind == "sub":
                    return _Sub()
                if kind == "baddump":
                    return _BadDump()
                if kind == "baddump-lookup":
                    return _BadDumpLookup()
                if kind == "mainbean":
                    return _MainBean()
                if kind == "inf":
                    return [float("inf"), "a result beyond the range of JSON numbers"]
                if kind == "selfref":
                    loop = ["a list that contains itself"]
                    loop.append(loop)
                    return loop
                if kind == "subrejected":
                    return _SubRejected()
                if kind == "fault":
                    from jsonrpclib import Fault

                    return Fault(-5, "application fault %s" % name)
                if kind == "sharedfault":
                    # the method reports its errors with one Fault object it keeps (a module-level constant in user code)
                    from jsonrpclib import Fault

                    if getattr(run, "_shared_fault", None) is None:
                        run._shared_fault = Fault(-7, "shared application fault")
                    return run._shared_fault
                return {"m": name, "a": list(args), "k": kwargs}
            finally:
                if not run.ref_mode:
                    s.emit("call.end", name)

        method.__name__ = "m_" + "".join(ch if ch.isalnum() else "_" for ch in name)
        if spec["kind"] == "two":
            def two(a, b):
                return method(a, b)

            two.__name__ = method.__name__
            return two
        return method

    def rebind(self, name, spec):
        f = self.make_method(name + "@2", spec)
        self.direct_table[name] = f
        self.server.register_function(f, name)

    def shared_object(self, value):
        """One object per run for all 'shared' callables (identity matters, not only equality)."""
        if getattr(self, "_shared", None) is None:
            import copy

            self._shared = copy.deepcopy(value)
        return self._shared

    def direct_dispatch(self, method, params):
        """A user-written dispatch function: own table, lets exceptions through."""
        table = self.direct_table
        if method not in table:
            raise Exception('method "%s" is not supported' % method)
        if isinstance(params, dict):
            return table[method](**params)
        return table[method](*params)

    BUILTINS = {"max": max, "len": len, "str": str, "sorted": sorted, "divmod": divmod, "format": "{}-{}".format, "int": int,
                "abs": abs, "sum": sum, "repr": repr}

    def register_all(self, disp):
        self.direct_table = {}
        self.sink = getattr(self, "sink", None)
        for name in sorted(self.p.get("methods", {})):
            spec = self.p["methods"][name]
            if spec["kind"] == "builtin":
                # C-implemented callables have no Python frame (and often no introspectable signature)
                f = self.BUILTINS[spec["builtin"]]
                self.direct_table[name] = f
                disp.register_function(f, name)
                continue
            if spec["kind"] == "sink":
                # a bound method of a C type: what it was given is observed afterwards
                import collections

                if self.ref_mode:
                    f = collections.deque().append
                else:
                    if self.sink is None:
                        self.sink = collections.deque()
                    f = self.sink.append
                self.direct_table[name] = f
                disp.register_function(f, name)
                continue
            f = self.make_method(name, spec)
            self.direct_table[name] = f
            if self.p["server"].get("custom_dispatch") in ("instance", "direct"):
                continue  # known to the custom dispatch function only: the default resolver would not find them
            disp.register_function(f, name)
        if self.p["server"].get("custom_dispatch") == "instance":
            run = self

            class Service(object):
                def _dispatch(self, method, params):
                    return run.direct_dispatch(method, params)

            disp.register_instance(Service())
            return
        inst = self.p.get("instance")
        if inst:
            root = _EmptyService() if self.p.get("instance_falsy") else _Obj()
            for dotted in sorted(inst):
                parts = dotted.split(".")
                cur = root
                for part in parts[:-1]:
                    nxt = getattr(cur, part, None)
                    if nxt is None:
                        nxt = _Obj()
                        setattr(cur, part, nxt)
                    cur = nxt
                setattr(cur, parts[-1], self.make_method(dotted, inst[dotted]))
            disp.register_instance(root)

    def config(self):
        import jsonrpclib.config as cfgmod

        sv = self.p["server"]
        cfg = cfgmod.Config(version=sv.get("version", 2.0), use_jsonclass=sv.get("use_jsonclass", True),
                            content_type=sv.get("content_type", "application/json-rpc"))
        if sv.get("handlers"):
            cfg.serialize_handlers[_Base] = _base_handler
            cfg.serialize_handlers[_SubRejected] = _base_handler  # registered for the exact type: it raises for it
        return cfg

    # -- server --------------------------------------------------------------------
    def build_server(self):
        import socket

        sv = self.p["server"]
        js = self.js
        cfg = self.config()
        self.cfg = cfg
        if sv["kind"] == "dispatcher":
            disp = js.SimpleJSONRPCDispatcher(config=cfg)
            self.server = disp
        else:
            unix = sv.get("family") == "unix"
            addr = "/sim/sock" if unix else ("sim", 0)
            if unix and sv.get("abstract"):
                addr = "\0sim-abstract"  # Linux abstract-namespace address
            fam = socket.AF_UNIX if unix else socket.AF_INET
            Quiet = quiet_handler(js, bool(sv.get("http11")))
            handler = Quiet
            cd = sv.get("custom_dispatch")
            if cd in ("server", "direct", True):
                run = self

                class Handler(Quiet):
                    def _dispatch(self, method, params):
                        if cd == "direct":
                            return run.direct_dispatch(method, params)
                        return run.server._dispatch(method, params)

                handler = Handler
            self.handler_class = handler
            if sv["kind"] == "plain":
                self.server = js.SimpleJSONRPCServer(addr, requestHandler=handler, logRequests=False, address_family=fam, config=cfg)
            else:
                pool = None
                if sv["kind"] == "pooled-user":
                    mx, mn = sv.get("pool", [2, 0])
                    pool = self.tp.ThreadPool(mx, mn, timeout=sv.get("pool_timeout", 4.0), logname="reqpool")
                    pool.start()
                    self.user_pool = pool
                self.server = js.PooledJSONRPCServer(addr, requestHandler=handler, logRequests=False, address_family=fam, config=cfg,
                                                     thread_pool=pool)
            if unix:
                self.url = "unix+http://./" + "/sim/sock"
            else:
                self.url = "http://sim:%d/" % self.server.server_address[1]
        if sv.get("npool") == "shared" and self.user_pool is not None:
            # one pool for requests and notifications
            self.npool = None
            self.shared_pool = True
            self.server.set_notification_pool(self.user_pool)
        elif sv.get("npool") and sv.get("npool") != "shared":
            mx, mn = sv["npool"][:2]
            qsize = sv["npool"][2] if len(sv["npool"]) > 2 else 0  # 0: unbounded
            self.npool = self.tp.ThreadPool(mx, mn, queue_size=qsize, timeout=sv.get("pool_timeout", 4.0), logname="notifpool")
            self.npool.start()
            self.server.set_notification_pool(self.npool)
        self.register_all(self.server)

    def loop_dispatch(self):
        cd = self.p["server"].get("custom_dispatch")
        if cd == "direct":
            return self.direct_dispatch
        if cd in ("server", True):
            return self.server._dispatch
        return None

    def make_proxy(self, ci):
        jc = self.jc
        c = self.p["clients"][ci]
        hist = None
        if c.get("history"):
            from jsonrpclib.history import History

            hist = History()
            self.histories[ci] = hist
        kw = {"version": c.get("version"), "history": hist, "config": self.client_config(c)}
        if self.p["server"]["kind"] == "dispatcher":
            return jc.ServerProxy("http://loopback/", transport=LoopbackTransport(self.server, self), **kw)
        return jc.ServerProxy(self.url, **kw)

    def relay_proxy(self):
        """A second proxy on the loopback dispatcher, sharing the History of client 0."""
        if getattr(self, "_relay", None) is None:
            self._relay = self.jc.ServerProxy("http://loopback/", transport=LoopbackTransport(self.server, self),
                                               history=self.histories.get(0), config=self.client_config(self.p["clients"][0]))
        return self._relay

    def client_config(self, c):
        import jsonrpclib.config as cfgmod

        return cfgmod.Config(version=c.get("version") or 2.0, use_jsonclass=c.get("use_jsonclass", True),
                             content_type=c.get("content_type", "application/json-rpc"))

    # -- clients --------------------------------------------------------------------
    def _invoke(self, target, method, params):
        f = target
        for part in (method.split(".") if isinstance(method, str) else method):
            f = getattr(f, part)
        if isinstance(params, dict):
            return f(**params)
        return f(*params)

    def do_op(self, ci, oi, op, proxy):
        s = self.s
        jc = self.jc
        kind = op[0]
        s.emit("op.call", ci, oi, kind)
        out = None
        if self.p["server"].get("http11") and kind in ("raw", "rawslow", "rawtrunc", "abort"):
            # these operations open a connection of their own; a client that kept its proxy's persistent connection
            # open meanwhile would hold a worker of the server (the only one of a plain server) while waiting for
            # another: it lets go of the first connection, as a client with one connection at a time does
            try:
                proxy("close")()
            except core.SimAbort:
                raise
            except BaseException:
                pass
        try:
            if kind in ("call", "call2"):
                val = self._invoke(proxy, op[1], op[2])
                out = ["value", val]
            elif kind == "burst":
                # many exchanges in a row through one proxy (and into its History): a C-implemented callable, judged by value
                good = 0
                for i in range(op[2]):
                    if self._invoke(proxy, op[1], [-i]) == i:
                        good += 1
                out = ["burst", good]
            elif kind == "rebind":
                # the server's owner registers another callable under a name that is already in use
                self.rebind(op[1], op[2])
                out = ["rebound"]
            elif kind == "hcall":
                # a kept intermediate handle used for several dotted calls
                handle = proxy
                for part in op[1]:
                    handle = getattr(handle, part)
                outs = []
                for suffix, params in op[2]:
                    try:
                        outs.append(["value", self._invoke(handle, suffix, params)])
                    except jc.ProtocolError as ex:
                        outs.append(["error", type(ex).__name__, _plain(ex.args)])
                out = ["hcall", outs]
            elif kind == "notify":
                val = self._invoke(proxy._notify, op[1], op[2])
                out = ["value", val]
            elif kind == "batch":
                mc = jc.MultiCall(proxy)
                for e in op[1]:
                    self._invoke(mc._notify if e[0] == "notify" else mc, e[1], e[2])
                res = mc()
                vals = []
                for i in range(len(res)):
                    try:
                        vals.append(["value", res[i]])
                    except jc.ProtocolError as ex:
                        vals.append(["error", type(ex).__name__, _plain(ex.args)])
                out = ["batch", vals]
            elif kind == "raw":
                out = ["raw"] + self.raw_post(op[1])
            elif kind == "rawslow":
                out = ["raw"] + self.raw_slow(op[1], op[2], op[3])
            elif kind == "rawtrunc":
                out = ["rawtrunc"] + self.raw_truncated(op[1], op[2])
            elif kind == "abort":
                out = ["abort", self.client_abort(op[1], op[2] if len(op) > 2 else "")]
            elif kind == "sleep":
                s.sleep(op[1])
                out = ["slept"]
        except core.SimAbort:
            raise
        except jc.ProtocolError as ex:
            out = ["error", type(ex).__name__, _plain(ex.args)]
        except BaseException as ex:
            out = ["exc", type(ex).__name__, str(ex)[:200]]
        s.emit("op.ret", ci, oi, kind, json.dumps(out, sort_keys=True, default=lambda o: "<%s>" % type(o).__name__))
        return out

    def raw_post(self, body):
        import http.client

        sv = self.p["server"]
        data = body.encode("utf-8")
        if sv["kind"] == "dispatcher":
            self.s.yield_point("loopback")
            ent = {"req": body, "resp": None}
            self.wire.append(ent)
            resp = self.server._marshaled_dispatch(body, self.loop_dispatch())
            ent["resp"] = resp
            return [200, resp]
        if sv.get("family") == "unix":
            conn = self.jc.UnixHTTPConnection("/sim/sock")
        else:
            conn = http.client.HTTPConnection("sim", self.server.server_address[1])
        try:
            conn.request("POST", "/", body=data, headers={"Content-Type": "application/json-rpc"})
            r = conn.getresponse()
            text = r.read().decode("utf-8")
            return [r.status, text]
        finally:
            conn.close()

    def raw_slow(self, body, where, pause):
        """A slow peer: a complete, well-formed request that arrives in two parts, `pause` seconds apart."""
        import socket as _s

        sm = simnet.module()
        sv = self.p["server"]
        if sv["kind"] == "dispatcher":
            return self.raw_post(body)
        data = body.encode("utf-8")
        if sv.get("family") == "unix":
            sock = sm.socket(_s.AF_UNIX, _s.SOCK_STREAM)
            sock.connect("/sim/sock")
        else:
            sock = sm.create_connection(("sim", self.server.server_address[1]))
        try:
            head = ("POST / HTTP/1.0\r\nContent-Type: application/json-rpc\r\nContent-Length: %d\r\n\r\n" % len(data)).encode()
            whole = head + data
            cut = {"in-headers": 20, "before-body": len(head), "in-body": len(head) + len(data) // 2}[where]
            sock.sendall(whole[:cut])
            self.s.fault("peer_pauses_mid_request")
            self.s.sleep(pause)
            sock.sendall(whole[cut:])
            chunks = []
            try:
                while True:
                    b = sock.recv(65536)
                    if not b:
                        break
                    chunks.append(b)
            except OSError:
                pass
            msgs = parse_http(b"".join(chunks))
            if not msgs:
                return [None, ""]
            st = msgs[0][0].split()
            return [int(st[1]) if len(st) > 1 and st[1].isdigit() else None, (msgs[0][2] or b"").decode("utf-8", "replace")]
        finally:
            sock.close()

    def raw_truncated(self, body, keep):
        """
        A client that dies in the middle of its request: declares the whole
        body, sends only its first ``keep`` bytes, half-closes and reads.
        """
        import socket as _s

        sm = simnet.module()
        sv = self.p["server"]
        data = body.encode("utf-8")
        if sv.get("family") == "unix":
            sock = sm.socket(_s.AF_UNIX, _s.SOCK_STREAM)
            sock.connect("/sim/sock")
        else:
            sock = sm.create_connection(("sim", self.server.server_address[1]))
        self.s.fault("client_abort_mid_body")
        try:
            head = ("POST / HTTP/1.0\r\nContent-Type: application/json-rpc\r\nContent-Length: %d\r\n\r\n" % len(data)).encode()
            sock.sendall(head + data[:keep])
            sock.shutdown(_s.SHUT_WR)
            chunks = []
            while True:
                b = sock.recv(65536)
                if not b:
                    break
                chunks.append(b)
            raw = b"".join(chunks)
            msgs = parse_http(raw)
            if not msgs:
                return [None, ""]
            st = msgs[0][0].split()
            return [int(st[1]) if len(st) > 1 and st[1].isdigit() else None, (msgs[0][2] or b"").decode("utf-8", "replace")]
        finally:
            sock.close()

    def client_abort(self, mode, tok):
        """A client that disappears at an awkward moment."""
        import socket as _s

        sm = simnet.module()
        sv = self.p["server"]
        if sv["kind"] == "dispatcher":
            return "n/a"
        if sv.get("family") == "unix":
            sock = sm.socket(_s.AF_UNIX, _s.SOCK_STREAM)
            sock.connect("/sim/sock")
        else:
            sock = sm.create_connection(("sim", self.server.server_address[1]))
        self.s.fault("client_abort_" + mode)
        try:
            body = ('{"jsonrpc": "2.0", "method": "echo", "params": ["%s"], "id": 1}' % tok).encode()
            head = ("POST / HTTP/1.0\r\nContent-Type: application/json-rpc\r\nContent-Length: %d\r\n\r\n" % len(body)).encode()
            if mode == "connect-close":
                pass
            elif mode == "half-headers":
                sock.sendall(head[:20])
            elif mode == "no-read":
                # the whole request, then gone without reading the reply
                sock.sendall(head + body)
            elif mode == "garbage":
                sock.sendall(b"\x00\xff\x16\x03\x01 not http at all\r\n\r\n")
            elif mode == "hold-open":
                # a well-behaved exchange, after which the client neither sends nor closes until the end of the run
                sock.sendall(head + body)
                got = b""
                try:
                    while True:
                        b = sock.recv(65536)
                        if not b:
                            break
                        got += b
                except OSError:
                    pass
                self.held = getattr(self, "held", [])
                self.held.append(sock)
                return "hold-open:" + ("answered" if got.startswith(b"HTTP/") else "closed")
            elif mode == "no-length":
                # a body without Content-Length, and a client that keeps its connection open until it is answered
                # (or the server closes): the server cannot know where the body ends
                sock.sendall(b"POST / HTTP/1.0\r\nContent-Type: application/json-rpc\r\n\r\n" + body)
                got = b""
                try:
                    while b"\r\n\r\n" not in got:
                        b = sock.recv(65536)
                        if not b:
                            break
                        got += b
                except OSError:
                    pass
                mode = "no-length:" + ("answered" if got.startswith(b"HTTP/") else "closed")
        finally:
            if sock not in getattr(self, "held", []):
                sock.close()
        return mode

    def client_body(self, ci):
        proxy = self.make_proxy(ci)
        for oi, op in enumerate(self.p["clients"][ci]["ops"]):
            self.do_op(ci, oi, op, proxy)
        try:
            proxy("close")()
        except core.SimAbort:
            raise
        except BaseException:
            pass

    # -- lifecycle -----------------------------------------------------------------
    def opener(self):
        s = self.s
        s.sleep(FAR)
        s.emit("opener.fire")
        self.open_gates()

    def wait_threads(self, sts):
        s = self.s
        for st in sts:
            s.yield_point("join")
            while st.state != core.DONE:
                s.block(st.joiners, None, "join %s" % st.name)

    def lifecycle_op(self, name, fn):
        s = self.s
        s.emit("life.call", name, s.now)
        out = "ok"
        try:
            fn()
        except core.SimAbort:
            raise
        except BaseException as ex:
            out = "exc:%s:%s" % (type(ex).__name__, str(ex)[:100])
        s.emit("life.ret", name, out, s.now)

    def root(self):
        s = self.s
        p = self.p
        n = simnet.net()
        n.seg_mode = p.get("net", {}).get("seg", "whole")
        n.delay_mode = p.get("net", {}).get("delay", 0)
        import jsonrpclib.config as cfgmod

        self.default_before = snapshot_config(cfgmod.DEFAULT)
        self.build_server()
        if p.get("second_server") == "early":
            # a server on the other kind of listener, alive for the whole run
            self.early_second = self.other_family_server()
        self.cfg_before = snapshot_config(self.cfg)
        srv = self.server
        life = p.get("lifecycle", "serve")
        is_net = p["server"]["kind"] != "dispatcher"
        s.spawn(self.opener, "opener", "harness")
        serve_thread = None
        if is_net and life == "serve-twice":
            # a first serving period without clients, then the real one
            first = s.spawn(lambda: srv.serve_forever(0.5), "serve_forever_1", "server")
            s.sleep(1.0)
            self.lifecycle_op("shutdown", srv.shutdown)
            self.wait_threads([first])
            # (shutdown() is only ever called while serve_forever() runs: calling it otherwise is a documented misuse of
            # socketserver, which leaves the shutdown request pending for the next serve_forever())
            life = "serve"
        if is_net and life in ("serve", "shutdown-inflight", "close-while-serving", "stop-rpc"):
            serve_thread = s.spawn(lambda: srv.serve_forever(0.5), "serve_forever", "server")
            if p.get("lifecycle") == "serve-twice":
                # second serving period: socketserver's "is shut down" event is still set from the first one until the
                # new loop clears it, so a shutdown() issued before the loop runs returns at once and the loop then
                # starts on whatever the owner did next (documented: shutdown() must be called while serve_forever()
                # is running). The owner waits until the loop is serving.
                s.sleep(0.25)
        elif is_net and life == "handle-loop":
            nreq = p.get("handle_count", 0)

            def loop():
                for _ in range(nreq):
                    srv.handle_request()

            serve_thread = s.spawn(loop, "handle_loop", "server")
        clients = []
        nfirst = len(p["clients"]) - (1 if life == "stop-rpc" else 0)
        if life != "never-served":
            for ci in range(nfirst):
                clients.append(s.spawn(lambda ci=ci: self.client_body(ci), "client%d" % ci, "client"))
        if life == "close-while-serving":
            # server_close() alone on a serving pooled server (it shuts the loop down itself), while clients still connect
            s.sleep(p.get("shutdown_at", 1.0))
            s.emit("inflight.shutdown")
            closer = s.spawn(lambda: self.lifecycle_op("server_close", srv.server_close), "closer", "harness")
            s.sleep(p.get("open_after", 2.0))
            self.open_gates()
            self.wait_threads([closer])
            self.wait_threads(clients)
        elif life == "stop-rpc":
            # the serving loop is ended by a served method, called by one more client once the others are done; the
            # owner then only closes the server
            self.wait_threads(clients)
            s.emit("clients.done")
            self.open_gates()
            last = s.spawn(lambda: self.client_body(nfirst), "client%d" % nfirst, "client")
            self.wait_threads([last])
            self.wait_threads([serve_thread])
            self.lifecycle_op("server_close", srv.server_close)
        elif life == "shutdown-inflight":
            # stop while requests are in flight; they complete once the gates open
            s.sleep(p.get("shutdown_at", 1.0))
            s.emit("inflight.shutdown")
            self.lifecycle_op("shutdown", srv.shutdown)
            closer = s.spawn(lambda: self.lifecycle_op("server_close", srv.server_close), "closer", "harness")
            s.sleep(p.get("open_after", 2.0))
            self.open_gates()
            self.wait_threads([closer])
            self.wait_threads(clients)
        else:
            self.wait_threads(clients)
            s.emit("clients.done")
            self.open_gates()
            if self.shared_pool:
                # notifications still queued in the shared pool would be discarded by server_close(): let them run first
                s.emit("shared.joined", bool(self.user_pool.join(self.drain_bound())))
            if is_net and p.get("second_server") is True and life == "serve":
                # another server of the same class in the same process, closed without ever serving, while this one serves
                self.second_server()
            if is_net:
                if life == "serve":
                    self.lifecycle_op("shutdown", srv.shutdown)
                elif life == "handle-loop":
                    self.wait_threads([serve_thread])
                self.lifecycle_op("server_close", srv.server_close)
                if p.get("double_close"):
                    self.lifecycle_op("server_close", srv.server_close)
        # drain the pools the harness owns
        if self.npool is not None:
            self.npool_drain()
        if getattr(self, "early_second", None) is not None:
            self.lifecycle_op("server_close", self.early_second.server_close)
        if self.sink is not None:
            s.emit("sink", list(self.sink))
        if is_net:
            s.emit("listener.fileno", srv.socket.fileno())
            if serve_thread is not None:
                self.wait_threads([serve_thread])
        for sock in getattr(self, "held", []):
            try:
                sock.close()
            except OSError:
                pass
        s.sleep(8.0)
        alive = [(t.tid, t.name) for t in s.threads if t.role == "thread" and t.state != core.DONE]
        s.emit("end", alive)
        s.emit("config.same", snapshot_config(self.cfg) == self.cfg_before,
               snapshot_config(cfgmod.DEFAULT) == self.default_before)
        # reference replies: the same request texts on a fresh dispatcher, one at a time
        self.reference()

    def other_family_server(self):
        import socket

        js = self.js
        sv = self.p["server"]
        if sv["kind"] == "dispatcher":
            return None
        cls = js.SimpleJSONRPCServer if sv["kind"] == "plain" else js.PooledJSONRPCServer
        self.s.probe("server_of_other_family_alive")
        if sv.get("family") == "unix":
            return cls(("sim", 0), requestHandler=self.handler_class, logRequests=False, address_family=socket.AF_INET, config=self.config())
        return cls("/sim/other", requestHandler=self.handler_class, logRequests=False, address_family=socket.AF_UNIX, config=self.config())

    def second_server(self):
        import socket

        js = self.js
        sv = self.p["server"]
        cls = js.SimpleJSONRPCServer if sv["kind"] == "plain" else js.PooledJSONRPCServer
        other = cls(("sim", 0), requestHandler=self.handler_class, logRequests=False, address_family=socket.AF_INET, config=self.config())
        self.s.probe("second_server_closed_while_first_serves")
        self.lifecycle_op("server_close", other.server_close)
        self.s.emit("second.fileno", other.socket.fileno())

    def drain_bound(self):
        """Long enough for everything the clients asked for to have run one after the other: the methods' own (virtual)
        durations count, a queue of slow notifications behind a single worker takes their sum."""
        total = 0.0
        methods = self.p.get("methods", {})
        for c in self.p.get("clients", []):
            for op in c.get("ops", []):
                ents = op[1] if op[0] == "batch" else [op]
                for e in ents:
                    if len(e) > 1 and isinstance(e[1], (str, list)):
                        name = e[1] if isinstance(e[1], str) else ".".join(str(x) for x in e[1])
                        total += float(methods.get(name, {}).get("d") or 0.0)
        return FAR + total

    def npool_drain(self):
        s = self.s
        # the notification pool belongs to the user: wait until its queue is done, then stop it
        ok = self.npool.join(self.drain_bound())
        s.emit("npool.joined", bool(ok))
        self.npool.stop()

    def requests_on_wire(self):
        """[(key, request text)] in connection order."""
        out = []
        if self.p["server"]["kind"] == "dispatcher":
            for k, ent in enumerate(self.wire):
                out.append((("loop", k), ent["req"]))
            return out
        for conn in self.s.net.conns:
            msgs = parse_http(conn.c2s)
            for mi, m in enumerate(msgs):
                if m[2] is not None:
                    try:
                        out.append(((conn.cid, mi), m[2].decode("utf-8")))
                    except UnicodeDecodeError:
                        pass
        return out

    def reference(self):
        s = self.s
        js = self.js
        self.ref_mode = True
        self.ref = {}
        try:
            for key, text in self.requests_on_wire():
                disp = js.SimpleJSONRPCDispatcher(config=self.config())
                self.register_all(disp)
                try:
                    cd = self.p["server"].get("custom_dispatch")
                    fn = None
                    if cd == "direct":
                        fn = self.direct_dispatch
                    elif cd in ("server", True):
                        fn = disp._dispatch
                    self.ref[key] = disp._marshaled_dispatch(text, fn)
                except core.SimAbort:
                    raise
                except BaseException as ex:
                    self.ref[key] = "EXC:%s" % type(ex).__name__
        finally:
            self.ref_mode = False
        s.emit("reference.done", len(self.ref))


_QUIET = {}


def quiet_handler(js, http11=False):
    """
    One request handler class for every simulated server (as users pass the same class to all their servers); a
    second one speaks HTTP/1.1, i.e. keeps connections alive (the usual way to get persistent connections out of
    http.server). Built again when the library's modules were re-executed (cold start).
    """
    if _QUIET.get("base") is not js.SimpleJSONRPCRequestHandler:
        class Quiet(js.SimpleJSONRPCRequestHandler):
            def log_message(self, format, *args):
                pass  # http.server writes protocol errors to stderr: keep the check's output clean

        class QuietKeepAlive(Quiet):
            protocol_version = "HTTP/1.1"

        _QUIET["base"] = js.SimpleJSONRPCRequestHandler
        _QUIET["cls"] = Quiet
        _QUIET["cls11"] = QuietKeepAlive
    return _QUIET["cls11" if http11 else "cls"]


def is_real_server(obj):
    return hasattr(obj, "serve_forever")


CONFIG_FIELDS = ("version", "content_type", "user_agent", "use_jsonclass", "serialize_method", "ignore_attribute")


def _stable(x):
    """An address-free description of a class / function / value."""
    if isinstance(x, type):
        return "class:%s.%s" % (x.__module__, x.__qualname__)
    if callable(x):
        return "callable:%s" % getattr(x, "__qualname__", type(x).__name__)
    return repr(x)


def snapshot_config(cfg):
    """Picture of a Config through its public attributes only (its internal representation is free to change)."""
    out = {}
    for k in CONFIG_FIELDS:
        out[k] = _stable(getattr(cfg, k, "<missing>"))
    for k in ("classes", "serialize_handlers"):
        d = getattr(cfg, k, None)
        out[k] = sorted((_stable(a), _stable(b), id(b)) for a, b in d.items()) if d is not None else None
    return out


def describe_snapshot(snap):
    """The same without object identities (for messages and logs)."""
    out = dict(snap)
    for k in ("classes", "serialize_handlers"):
        if out.get(k) is not None:
            out[k] = [(a, b) for a, b, _ in out[k]]
    return out


def _plain(x):
    if isinstance(x, (str, int, float, bool)) or x is None:
        return x
    if isinstance(x, (list, tuple)):
        return [_plain(y) for y in x]
    if isinstance(x, dict):
        return dict((str(k), _plain(v)) for k, v in x.items())
    return "<%s>" % type(x).__name__  # never a repr: it may hold a memory address


def execute(program, decider, chooser=None, step_cap=120000):
    if program.get("cold"):
        # this run starts from freshly imported modules (as the first request ever served by a process)
        env.cold_start()
    if program.get("big"):
        step_cap = max(step_cap, 1500000)  # a few programs are large on purpose (many clients, long batches)
    s = core.Sched(decider, step_cap=step_cap, horizon=FAR * 8 + 2048, chooser=chooser)
    run = SysRun(program, s)
    with env.debug_logging(program.get("debug_log")):
        verdict = s.run(run.root)
    if program.get("debug_log"):
        s.probes["library_logging_at_debug_level"] = 1
    return s, run, verdict
