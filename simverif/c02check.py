"""
C02 - every request body gets a well-formed reply and nothing raises.

The real server sits behind a damaging network: for a corpus entry (a valid or
structurally odd request text) the sending peer dies after k bytes of the body
(every k on a character boundary: the server's short-read branch dispatches
what arrived) or one character is replaced in flight.  Level:
fault_enumeration over the damage positions of a fixed corpus, plus seeded
corpus entries.
"""

import copy
import json

from . import core, env, simnet
from .runner import Violation
from .sysim import parse_http

ALPHABET = ['"', "{", "}", "[", "]", ",", ":", "\\", " ", "0", "a", "é", "\u0000"]

JSON_VALUES = ["null", "true", "false", "0", "-1", "1.5", '""', '"x"', "[]", "[1]", "{}", '{"a": 1}', '"\\ud800"', '"\\u00e9"', "1e999", "-1e999"]

FIXED_CORPUS = [
    '{"jsonrpc": "2.0", "method": "echo", "params": ["é", 1], "id": 1}',
    '{"jsonrpc": "2.0", "method": "add", "params": {"a": 1, "b": 2}, "id": "x"}',
    '{"method": "echo", "params": [null, true], "id": 7}',
    '{"jsonrpc": "2.0", "method": "echo", "params": [[1, {"k": "v"}]]}',
    '{"method": "fail", "params": [], "id": null}',
    '[{"jsonrpc": "2.0", "method": "add", "params": [1, 2], "id": 1}, {"jsonrpc": "2.0", "method": "echo", "params": ["n"]}, {"method": "fail", "params": [], "id": 2}]',
    '{"jsonrpc": "2.0", "method": "nope", "id": 0}',
    '{"jsonrpc": "2.0", "method": "none", "params": [], "id": 1.5}',
    '[1, "a", {}, [], {"jsonrpc": "2.0", "method": "echo", "id": 4}]',
    '{"jsonrpc": "2.0", "method": "fail", "params": ["中"], "id": "中"}',
    '{"jsonrpc": "2.0", "method": "echo", "params": [1], "id": 1e999}',
    '{"method": "echo", "params": [-1e999], "id": 3}',
    '[{"jsonrpc": "2.0", "method": "add", "params": [1, 2], "id": [1]}, {"jsonrpc": "2.0", "method": "echo", "params": ["n"], "id": {"k": 2}}, {"jsonrpc": "2.0", "method": "add", "params": [3, 4], "id": 5}]',
]

# batches of more than a hundred entries (calls, a notification, an invalid entry; notifications only): run as they are
# and cut at two places - damaging them at every position would cost thousands of long runs
LARGE_BATCHES = [
    "[" + ", ".join(['{"jsonrpc": "2.0", "method": "add", "params": [%d, 1], "id": %d}' % (i, i) for i in range(128)]
                    + ['{"jsonrpc": "2.0", "method": "echo", "params": ["n"]}', "7"]) + "]",
    "[" + ", ".join(['{"jsonrpc": "2.0", "method": "echo", "params": [%d]}' % i for i in range(140)]) + "]",
]


def structural_variants():
    """Members absent or bound to every JSON type; scalars and empty containers at top level."""
    out = list(JSON_VALUES)
    base = {"jsonrpc": '"2.0"', "method": '"echo"', "params": "[1]", "id": "1"}
    for member in ("jsonrpc", "method", "params", "id"):
        rest = dict(base)
        del rest[member]
        out.append("{" + ", ".join('"%s": %s' % kv for kv in rest.items()) + "}")
        for val in JSON_VALUES:
            d = dict(base)
            d[member] = val
            out.append("{" + ", ".join('"%s": %s' % kv for kv in d.items()) + "}")
            if member != "jsonrpc":
                d1 = dict(d)
                del d1["jsonrpc"]
                out.append("{" + ", ".join('"%s": %s' % kv for kv in d1.items()) + "}")
    out.append("[" + ", ".join(out[20:26]) + "]")
    # batch entries of every JSON type, including arrays that themselves hold requests
    call = '{"jsonrpc": "2.0", "method": "add", "params": [1, 2], "id": 1}'
    for val in JSON_VALUES + ["[%s]" % call, "[[%s]]" % call, "[[]]", "[[1]]"]:
        out.append("[%s]" % val)
        out.append("[%s, %s]" % (call, val))
    # __jsonclass__ members: malformed descriptors of every JSON type and length, unresolvable / invalid names,
    # and side-effect-free classes (the domain of the property when class translation is on)
    descs = ["null", "true", "5", '"x"', "[]", "{}", '["nope.Missing"]', '["nope.Missing", []]', '["", []]', '["bad name!", []]',
             '[7, []]', '["decimal.Decimal", ["1.5"]]', '["decimal.Decimal"]', '["decimal.Decimal", [], {}, 3]', '["collections.OrderedDict", []]',
             '["fractions.Fraction", [1, 3]]', '[["a"], []]', '["os.", []]', '[".os", []]', '["a..b", []]']
    for d in descs:
        out.append('{"jsonrpc": "2.0", "method": "echo", "params": [{"__jsonclass__": %s}], "id": 1}' % d)
        out.append('{"jsonrpc": "2.0", "method": "echo", "params": [1], "id": {"__jsonclass__": %s}}' % d)
    for d in descs:
        # neither "jsonrpc" nor "id": the invalid-request message is built from the loaded request
        out.append('{"method": "echo", "params": [{"__jsonclass__": %s}]}' % d)
        out.append('[{"method": "echo", "params": [{"__jsonclass__": %s}]}, 1]' % d)
    out.append('{"__jsonclass__": ["decimal.Decimal", ["2"]]}')
    out.append('[{"__jsonclass__": []}]')
    return out


def gen_value(rng, depth=0):
    k = rng.random()
    if depth > 2 or k < 0.5:
        return rng.choice([None, True, False, 0, -3, 2.5, "", "s", "é中", "a b", 10 ** 12])
    if k < 0.75:
        return [gen_value(rng, depth + 1) for _ in range(rng.randint(0, 3))]
    return dict((rng.choice(["a", "b", "k", "é"]), gen_value(rng, depth + 1)) for _ in range(rng.randint(0, 3)))


def gen_request(rng):
    def one():
        d = {}
        if rng.random() < 0.7:
            d["jsonrpc"] = "2.0"
        d["method"] = rng.choice(["echo", "add", "fail", "none", "nope", "echo"])
        if rng.random() < 0.8:
            d["params"] = [gen_value(rng) for _ in range(rng.randint(0, 3))] if rng.random() < 0.6 else \
                dict((k, gen_value(rng)) for k in rng.sample(["a", "b", "c"], rng.randint(0, 2)))
        if rng.random() < 0.8 or "jsonrpc" not in d:
            d["id"] = rng.choice([1, 0, "x", None, "", 2.5, "é"])
        return d

    if rng.random() < 0.3:
        return json.dumps([one() for _ in range(rng.randint(1, 3))], ensure_ascii=False)
    return json.dumps(one(), ensure_ascii=False)


def damages_of(text):
    out = []
    for k in range(len(text) + 1):
        out.append(["trunc", k])
    for i in range(len(text)):
        for ch in ALPHABET:
            if text[i] != ch:
                out.append(["repl", i, ch])
    return out


def apply_damage(text, dmg):
    if dmg[0] == "trunc":
        return text[:dmg[1]]
    if dmg[0] == "repl":
        return text[:dmg[1]] + dmg[2] + text[dmg[1] + 1:]
    return text


# ---------------------------------------------------------------------------
# the validator, written from the property text


class NonStandardLiteral(ValueError):
    pass


def _reject_constant(name):
    raise NonStandardLiteral(name)


def check_error(e):
    return isinstance(e, dict) and isinstance(e.get("code"), int) and not isinstance(e.get("code"), bool) and isinstance(e.get("message"), str)


def check_object(o):
    if not isinstance(o, dict):
        return "response is not an object"
    if "jsonrpc" in o:
        if o["jsonrpc"] != "2.0":
            return '"jsonrpc" is %r' % (o["jsonrpc"],)
        if "id" not in o:
            return "2.0 object without id"
        if ("result" in o) == ("error" in o):
            return "2.0 object must have exactly one of result/error"
        if "error" in o and not check_error(o["error"]):
            return "error is not {code:int, message:str}"
        return None
    for m in ("result", "error", "id"):
        if m not in o:
            return "1.0 object without %r" % m
    if o["error"] is not None:
        if o["result"] is not None:
            return "1.0 failure with non-null result"
        if not check_error(o["error"]):
            return "error is not {code:int, message:str}"
    return None


def check_reply(text):
    if text == "":
        return None
    try:
        obj = json.loads(text, parse_constant=_reject_constant)
    except NonStandardLiteral as ex:
        return "reply uses the non-standard literal %s" % ex
    except ValueError:
        return "reply is not JSON"
    if isinstance(obj, list):
        if not obj:
            return "empty array reply"
        for o in obj:
            r = check_object(o)
            if r:
                return r
        return None
    return check_object(obj)


def has_overflowing_number(text):
    """True when the request is JSON and one of its number tokens is beyond the range of a float."""
    seen = []

    def pf(tok):
        f = float(tok)
        if f in (float("inf"), float("-inf")):
            seen.append(tok)
        return f

    try:
        json.loads(text, parse_float=pf, parse_constant=_reject_constant)
    except ValueError:
        return False
    return bool(seen)


def in_domain(text):
    # the non-standard literals the stdlib parser tolerates are outside the property's domain
    return not any(lit in text for lit in ("NaN", "Infinity"))


FAIL_KINDS = ["own", "noargs", "nonstring-arg", "protocol-error-text", "protocol-error-pair", "transport-error", "app-error",
              "unicode-error", "bytes-arg"]

# ---------------------------------------------------------------------------


class C02Run(object):
    def __init__(self, program, sched):
        self.p = program
        self.s = sched
        self.jc, self.js = env.net_seams()
        self.results = []

    def register(self, disp):
        class Boom(Exception):
            pass

        jc = self.jc
        kind = self.p.get("fail_kind", 0) % len(FAIL_KINDS)
        self.s.probe("fail_kind_" + FAIL_KINDS[kind])

        def fail(*a, **k):
            # what a registered callable raises: its own exception, a built-in one, or an error of this very
            # library relayed from a call the method made to another server
            name = FAIL_KINDS[kind]
            if name == "own":
                raise Boom("failure é")
            if name == "noargs":
                raise ValueError()
            if name == "nonstring-arg":
                raise KeyError(7)
            if name == "protocol-error-text":
                raise jc.ProtocolError("relayed failure")
            if name == "protocol-error-pair":
                raise jc.ProtocolError((-32000, "relayed failure"))
            if name == "transport-error":
                raise jc.TransportError("http://upstream/", 503, "Service Unavailable", "upstream is down")
            if name == "app-error":
                raise jc.AppError((-5, "application error", {"detail": [1, 2]}))
            if name == "unicode-error":
                b"\xff".decode("utf-8")
            if name == "bytes-arg":
                raise OSError(b"\xff\xfe raw bytes")
            raise Boom("failure")

        if self.p.get("dispatch") == "instance":
            class Service(object):
                """A user-written dispatcher: own table, lets exceptions through."""

                table = {1: "x"}

                def _dispatch(self, method, params):
                    if method == "echo":
                        return [list(params) if isinstance(params, list) else params, {}]
                    if method == "add":
                        return params[0] + params[1]
                    if method == "none":
                        return None
                    if method == "fail":
                        return self.table[7]  # KeyError(7): the first argument is not a string
                    raise FileNotFoundError(2, "No such method file", method)

            disp.register_instance(Service())
            return
        disp.register_function(lambda *a, **k: [list(a), k], "echo")
        disp.register_function(lambda a, b: a + b, "add")
        disp.register_function(fail, "fail")
        disp.register_function(lambda *a, **k: None, "none")

    def post(self, text, full_len=None):
        """Sends text as a request body; with full_len the sender dies after len(text) of full_len bytes."""
        import socket

        p = self.p
        data = text.encode("utf-8", "surrogatepass")
        if p["server"] == "dispatcher":
            try:
                return [200, self.srv._marshaled_dispatch(text)]
            except core.SimAbort:
                raise
            except BaseException as ex:
                return ["raised", "%s: %s" % (type(ex).__name__, str(ex)[:80])]
        sm = simnet.module()
        sock = sm.create_connection(("sim", self.srv.server_address[1]))
        try:
            n = len(data) if full_len is None else full_len
            head = ("POST / HTTP/1.0\r\nContent-Type: application/json-rpc\r\nContent-Length: %d\r\n\r\n" % n).encode()
            if p.get("pause"):
                # a slow peer: headers now, the body some seconds later
                sock.sendall(head)
                self.s.fault("peer_pauses_mid_request")
                self.s.sleep(p["pause"])
                sock.sendall(data)
            else:
                sock.sendall(head + data)
            if full_len is not None:
                self.s.fault("sender_died_mid_body")
                sock.shutdown(socket.SHUT_WR)
            chunks = []
            try:
                while True:
                    b = sock.recv(65536)
                    if not b:
                        break
                    chunks.append(b)
            except OSError:
                pass
            raw = b"".join(chunks)
        finally:
            sock.close()
        msgs = parse_http(raw)
        if not msgs or msgs[0][2] is None:
            return ["no-reply", raw[:40].decode("latin-1")]
        st = msgs[0][0].split()
        try:
            body = msgs[0][2].decode("utf-8")
        except UnicodeDecodeError:
            return [int(st[1]), None]
        return [int(st[1]) if len(st) > 1 and st[1].isdigit() else None, body]

    def root(self):
        import jsonrpclib.config as cfgmod

        s = self.s
        p = self.p
        js = self.js
        cfg = cfgmod.Config(version=p.get("version", 2.0), use_jsonclass=p.get("jsonclass", True))
        if p["server"] == "dispatcher":
            self.srv = js.SimpleJSONRPCDispatcher(config=cfg)
            st = None
        else:
            cls = js.PooledJSONRPCServer if p["server"] == "pooled" else js.SimpleJSONRPCServer
            self.srv = cls(("sim", 0), logRequests=False, config=cfg)
            st = s.spawn(lambda: self.srv.serve_forever(0.5), "serve_forever", "server")
        self.register(self.srv)
        npool = None
        if p.get("npool"):
            # notifications handed to a pool of their own (a documented option of every dispatcher)
            import jsonrpclib.threadpool as tpmod

            npool = tpmod.ThreadPool(2, 0, timeout=2.0, logname="c02-notifications")
            npool.start()
            self.srv.set_notification_pool(npool)
            s.probe("notification_pool_set")
        base = p["base"]
        nbytes = len(base.encode("utf-8", "surrogatepass"))
        for dmg in p["damage"]:
            text = apply_damage(base, dmg)
            if dmg[0] == "trunc" and dmg[1] < len(base):
                out = self.post(text, nbytes)
            else:
                out = self.post(text)
            self.results.append((dmg, text, out))
        # the server must still be serving
        probe = self.post('{"jsonrpc": "2.0", "method": "add", "params": [20, 22], "id": "probe"}')
        self.probe = probe
        if st is not None:
            self.srv.shutdown()
            self.srv.server_close()
            while st.state != core.DONE:
                s.block(st.joiners, None, "join")
        if npool is not None:
            npool.join(60.0)
            npool.stop()


def analyse_c02(program, s, run, verdict):
    v = []
    if verdict is not None:
        v.append(Violation("C02", "termination", verdict.kind, "%s: %s" % (verdict.kind, verdict.detail)))
        return v, 0
    for tid, name, ex in s.thread_errors:
        v.append(Violation("C02", "thread-crash", ex.split("(")[0], "uncaught exception in simulated thread %s: %s" % (name, ex)))
    judged = 0
    for dmg, text, out in run.results:
        if not in_domain(text):
            continue
        judged += 1
        if out[0] == "raised":
            v.append(Violation("C02", "never-raises", out[1].split(":")[0], "dispatcher raised %s for body %r" % (out[1], text[:100])))
            continue
        if out[0] != 200:
            v.append(Violation("C02", "never-raises", "http-%s" % out[0], "body %r answered with %s %r" % (text[:100], out[0], (out[1] or "")[:80])))
            continue
        if out[1] is None:
            v.append(Violation("C02", "well-formed", "undecodable", "reply to %r is not UTF-8" % text[:100]))
            continue
        why = check_reply(out[1])
        if why:
            if "non-standard literal" in why:
                # narrow class: the reply echoes a number of the request that overflows a float
                sig = "overflowing-number-echoed" if has_overflowing_number(text) else "non-standard-literal"
            else:
                sig = why.split(" ")[0] + "-" + why.split(" ")[-1][:12]
            v.append(Violation("C02", "well-formed", sig, "%s: body %r -> reply %r" % (why, text[:100], out[1][:120])))
    pr = run.probe
    ok = pr[0] == 200 and pr[1] is not None and json.loads(pr[1] or "{}").get("result") == 42 if pr[1] else False
    if not ok:
        v.append(Violation("C02", "still-serving", "probe-failed", "a healthy request after the damaged ones got %r" % (pr,)))
    return v, judged


class C02Scenario(object):
    name = "c02"
    props = ("C02",)
    shrink_budget = 300
    BATCH = 60

    def __init__(self, tier="quick"):
        self.tier = tier
        self.args = {"tier": tier}
        corpus = list(FIXED_CORPUS) + (structural_variants() if tier == "thorough" else structural_variants()[::3])
        self.enumerated = []
        k = 0
        for base in corpus:
            dm = damages_of(base) + [["none"]]
            if tier == "quick" and len(base) > 70:
                # quick: every truncation, every third replacement position
                dm = [d for d in dm if d[0] != "repl" or d[1] % 3 == k % 3]
            for i in range(0, len(dm), self.BATCH):
                server = ["plain", "dispatcher", "pooled", "dispatcher"][k % 4]
                self.enumerated.append({"server": server, "version": [2.0, 1.0][(k // 4) % 2], "jsonclass": (k // 8) % 2 == 0,
                                        "dispatch": "instance" if k % 5 == 4 else "default", "fail_kind": k % 9 if k % 2 else 0, "npool": k % 7 == 3, "pause": [0, 0, 0, 7.0, 0, 30.0][k % 6], "debug_log": k % 5 == 2,
                                        "base": base, "damage": dm[i:i + self.BATCH]})
                k += 1
        for j, base in enumerate(LARGE_BATCHES):
            for server in ("dispatcher", "plain"):
                self.enumerated.append({"server": server, "version": [2.0, 1.0][j % 2], "jsonclass": True, "dispatch": "default",
                                        "fail_kind": 0, "npool": server == "plain", "pause": 0, "debug_log": False, "base": base,
                                        "damage": [["none"], ["trunc", len(base) // 2], ["trunc", len(base) - 1]]})
        self.must_cover = len(self.enumerated)

    def program_for(self, index, rng):
        if index < len(self.enumerated):
            return self.enumerated[index]
        return self.generate(rng)

    def generate(self, rng):
        k = rng.random()
        if k < 0.12:
            # arbitrary Unicode text
            alpha = list('{}[]":,\\ \n\t0123456789.-+eEtruefalsn') + ["é", "中", "\U0001F600", "\u0000", "\ufeff", "\u2028", "method", "jsonrpc", "id", "params"]
            base = "".join(rng.choice(alpha) for _ in range(rng.randint(0, 60)))
        elif k < 0.22:
            # large bodies: garbage or requests with long multi-byte strings (messages built from them get long too)
            pad = rng.choice(["é", "€", "中", "\U0001F600"]) * rng.randint(300, 800)
            base = rng.choice(["x" + pad, '{"jsonrpc": "2.0", "method": "echo", "params": ["%s"], "id": 1}' % pad,
                               '{"method": "%s"}' % pad, "[" + pad + "]", '{"params": ["%s"]}' % pad, " " * rng.randint(1, 5), "\r\n", "\t \n"])
        elif k < 0.82:
            base = gen_request(rng)
        else:
            base = rng.choice(structural_variants())
        if len(base) > 250:
            # a large body: a sample of truncation points and replacements (the full set would be tens of thousands)
            dm = [["none"]] + [["trunc", rng.randrange(len(base) + 1)] for _ in range(30)] + \
                 [["repl", rng.randrange(len(base)), rng.choice(ALPHABET)] for _ in range(28)]
        else:
            dm = damages_of(base) + [["none"]]
        rng.shuffle(dm)
        return {"server": rng.choice(["plain", "pooled", "dispatcher"]), "version": rng.choice([2.0, 1.0]),
                "jsonclass": rng.random() < 0.7, "dispatch": rng.choice(["default", "default", "instance"]),
                "fail_kind": rng.choice([0, 0] + list(range(9))), "npool": rng.random() < 0.2,
                "pause": rng.choice([0, 0, 0, 2.0, 7.0, 30.0, 120.0]), "debug_log": rng.random() < 0.25, "base": base, "damage": dm[:self.BATCH]}

    def run(self, program, decider, chooser=None):
        s = core.Sched(decider, step_cap=600000, horizon=8192.0, chooser=chooser)
        run = C02Run(program, s)
        with env.debug_logging(program.get("debug_log")):
            verdict = s.run(run.root)
        if program.get("debug_log"):
            s.probes["library_logging_at_debug_level"] = 1
        if program.get("pause") and program["server"] != "dispatcher":
            s.probes["request_with_a_pause_of_seconds_inside"] = 1
        viol, judged = analyse_c02(program, s, run, verdict)
        p = dict(s.probes)
        p["server_" + program["server"]] = 1
        p["dispatch_" + str(program.get("dispatch", "default"))] = 1
        kinds = set(d[0] for d in program["damage"])
        for k in kinds:
            p["damage_" + k] = 1
        if any(o[0] == 200 and o[1] == "" for _, _, o in run.results):
            p["empty_reply"] = 1
        if any(o[0] == 200 and o[1] and '"error"' in o[1] and "-32700" in o[1] for _, _, o in run.results):
            p["parse_error_reply"] = 1
        if any(o[0] == 200 and o[1] and "-32600" in o[1] for _, _, o in run.results):
            p["invalid_request_reply"] = 1
        if any(o[0] == 200 and o[1] and '"result"' in o[1] and '"error"' not in o[1] for _, _, o in run.results):
            p["success_reply"] = 1
        stats = {"steps": s.step, "switches": s.nswitch, "simtime": s.now, "verdict": verdict.kind if verdict else None,
                 "faults": dict(s.faults), "probes": p, "states": set([(program["server"], program["version"], program["jsonclass"])]),
                 "nontrivial": judged > 0, "cases": judged}
        return s, viol, stats

    def shrink_candidates(self, program):
        p = program
        dm = p["damage"]
        if len(dm) > 1:
            half = len(dm) // 2
            for part in (dm[:half], dm[half:]):
                q = copy.deepcopy(p)
                q["damage"] = copy.deepcopy(part)
                yield q
            for i in range(len(dm)):
                if len(dm) <= 8:
                    q = copy.deepcopy(p)
                    del q["damage"][i]
                    yield q
        for key, val in (("server", "dispatcher"), ("version", 2.0), ("jsonclass", True), ("dispatch", "default")):
            if p.get(key) != val:
                q = copy.deepcopy(p)
                q[key] = val
                yield q
