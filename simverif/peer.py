"""
Scripted raw peer: a simulated thread that plays an HTTP server on a
simulated listener, records every request verbatim and answers according to a
script of fault symbols (DESIGN.md 2.3 / C17-C19).

One symbol is consumed per request received (a "refuse" symbol is consumed by
a connection attempt); when the script is exhausted the peer is healthy.
"""

import gzip
import json
import socket as _real

from . import core, simnet

SYMBOLS = ["ok", "ok-close", "refuse", "close-before-reply", "reset", "4xx-len", "5xx-len", "5xx-nolen-close",
           "bodiless", "bodiless-open", "truncated", "empty-200", "nonjson-200"]
FAULTS = [s for s in SYMBOLS if s != "ok"]


class Peer(object):
    def __init__(self, sched, family="tcp", script=(), reply_fn=None, encoding="identity", http10=False, close_delimited=False):
        self.s = sched
        self.family = family
        self.script = list(script)
        self.pos = 0
        self.requests = []  # recorded requests
        self.reply_fn = reply_fn or self.echo_reply
        self.encoding = encoding  # identity | gzip | chunked
        self.http10 = http10
        self.close_delimited = close_delimited  # healthy replies carry no Content-Length: the body ends where the connection does
        self.stop = False
        self.sock = None
        self.consumed = []  # (symbol, request index or None)
        self.handlers = []

    # -- script ---------------------------------------------------------------------
    def peek(self):
        return self.script[self.pos] if self.pos < len(self.script) else None

    def take(self, req_index):
        sym = self.peek()
        if sym is None:
            return "ok"
        self.pos += 1
        self.consumed.append((sym, req_index))
        self.s.emit("peer.symbol", sym, req_index, self.pos == len(self.script))
        if sym != "ok":
            self.s.fault("peer_" + sym)
        return sym

    # -- listening --------------------------------------------------------------------
    def start(self):
        sm = simnet.module()
        n = simnet.net()
        if self.family == "unix":
            self.sock = sm.socket(_real.AF_UNIX, _real.SOCK_STREAM)
            self.sock.bind("/sim/peer")
            self.addr = "/sim/peer"
            self.url_base = "unix+http://./sim/peer"
            self.key = ("unix", "/sim/peer")
        else:
            self.sock = sm.socket(_real.AF_INET, _real.SOCK_STREAM)
            self.sock.bind(("sim", 0))
            self.addr = self.sock.getsockname()
            self.url_base = "http://sim:%d" % self.addr[1]
            self.key = ("tcp", self.addr[1])
        self.sock.listen(5)
        n.connect_hook = self.on_connect_attempt
        self.thread = self.s.spawn(self.accept_loop, "peer", "peer")

    def on_connect_attempt(self, key):
        """Called by the network for every connect(): True = refuse."""
        if key == self.key and self.peek() == "refuse":
            self.take(None)
            return True
        return False

    def accept_loop(self):
        s = self.s
        self.sock.settimeout(1.0)
        while not self.stop:
            try:
                conn, _ = self.sock.accept()
            except _real.timeout:
                continue
            except OSError:
                break
            st = s.spawn(lambda c=conn: self.serve(c), "peer-conn", "peer")
            self.handlers.append(st)
        try:
            self.sock.close()
        except OSError:
            pass

    def shutdown(self):
        self.stop = True

    # -- one connection -------------------------------------------------------------------
    def read_request(self, rfile):
        line = rfile.readline(65537)
        if not line:
            return None
        headers = []
        while True:
            h = rfile.readline(65537)
            if h in (b"\r\n", b"\n", b""):
                break
            headers.append(h.decode("latin-1").rstrip("\r\n"))
        hd = {}
        for h in headers:
            if ":" in h:
                k, v = h.split(":", 1)
                hd.setdefault(k.strip().lower(), []).append(v.strip())
        body = b""
        cl = hd.get("content-length", [None])[0]
        if cl is not None and cl.isdigit():
            body = rfile.read(int(cl))
        return {"line": line.decode("latin-1").rstrip("\r\n"), "headers": headers, "hd": hd, "body": body}

    def echo_reply(self, req):
        try:
            obj = json.loads(req["body"].decode("utf-8"))
        except ValueError:
            return b""
        if isinstance(obj, list):
            out = [{"jsonrpc": "2.0", "id": e.get("id"), "result": (e.get("params") or [None])[0]} for e in obj if "id" in e]
            return json.dumps(out).encode("utf-8") if out else b""
        if "id" not in obj or obj.get("id") is None:
            return b""
        params = obj.get("params") or [None]
        first = params[0] if isinstance(params, list) else sorted(params.values())[0]
        return json.dumps({"jsonrpc": "2.0", "id": obj.get("id"), "result": first}).encode("utf-8")

    def serve(self, conn):
        s = self.s
        rfile = conn.makefile("rb")
        try:
            while True:
                try:
                    req = self.read_request(rfile)
                except OSError:
                    req = None
                if req is None:
                    break
                idx = len(self.requests)
                self.requests.append(req)
                s.emit("peer.request", idx, req["line"])
                sym = self.peek()
                if sym == "refuse":
                    # the peer went away: this connection dies, the next connection attempt is refused
                    break
                sym = self.take(idx)
                req["symbol"] = sym
                body = self.reply_fn(req)
                try:
                    if not self.respond(conn, sym, body):
                        break
                except OSError:
                    break  # the client has gone
        finally:
            try:
                rfile.close()
            except OSError:
                pass
            try:
                conn.close()
            except OSError:
                pass

    def send_response(self, conn, status, reason, body, extra=(), length=True, proto=None):
        proto = proto or ("HTTP/1.0" if self.http10 else "HTTP/1.1")
        lines = ["%s %d %s" % (proto, status, reason), "Content-Type: application/json-rpc"]
        payload = body
        if self.encoding == "gzip" and status == 200 and body:
            payload = gzip.compress(body, mtime=0)
            lines.append("Content-Encoding: gzip")
        if self.encoding == "gzip-multi" and status == 200 and body:
            # several gzip members one after the other: a legal gzip stream
            third = max(1, len(body) // 3)
            payload = b"".join(gzip.compress(part, mtime=0) for part in (body[:third], body[third:2 * third], body[2 * third:]) if part)
            lines.append("Content-Encoding: gzip")
        if self.encoding == "chunked" and status == 200 and body and length:
            lines.append("Transfer-Encoding: chunked")
            out = []
            pos = 0
            k = 0
            sizes = [1, 7, 1023, 1, 1024, 300]
            while pos < len(payload):
                n = sizes[k % len(sizes)]
                k += 1
                piece = payload[pos:pos + n]
                pos += n
                out.append(("%x\r\n" % len(piece)).encode() + piece + b"\r\n")
            out.append(b"0\r\n\r\n")
            data = b"".join(out)
        else:
            if length:
                lines.append("Content-Length: %d" % len(payload))
            data = payload
        lines.extend(extra)
        head = ("\r\n".join(lines) + "\r\n\r\n").encode("latin-1")
        conn.sendall(head + data)

    def respond(self, conn, sym, body):
        """Returns True when the connection stays open."""
        s = self.s
        if sym == "ok" and self.close_delimited:
            self.send_response(conn, 200, "OK", body, extra=("Connection: close",), length=False)
            return False
        if sym == "ok":
            self.send_response(conn, 200, "OK", body)
            return not self.http10
        if sym == "ok-close":
            # advertised as keep-alive, closed right after the reply
            self.send_response(conn, 200, "OK", body)
            return False
        if sym == "close-before-reply":
            return False
        if sym == "reset":
            conn._ep.peer.reset = True
            s.wake_all(conn._ep.peer.waiters)
            return False
        if sym == "4xx-len":
            self.send_response(conn, 404, "Not Found", b"no such thing")
            return True
        if sym == "5xx-len":
            # an error page that is not UTF-8, as a gateway would send it
            self.send_response(conn, 500, "Internal Server Error", b"<h1>Erreur interne \xe9\xff\xfe</h1>")
            return True
        if sym == "5xx-nolen-close":
            # neither a reason phrase nor a registered status code
            conn.sendall(b"HTTP/1.1 599\r\nContent-Type: text/plain\r\n\r\noverloaded")
            return False
        if sym == "bodiless":
            self.send_response(conn, 204, "No Content", b"", length=False)
            return True
        if sym == "bodiless-open":
            # a status with neither body nor length, and the peer keeps the connection open
            conn.sendall(b"HTTP/1.1 502 Bad Gateway\r\nContent-Type: text/plain\r\n\r\n")
            return True
        if sym in ("big-truncated", "big-reset-mid-body"):
            # a large reply cut after 1500 of 3000 declared bytes: the client has consumed at least one read block
            full = b'{"jsonrpc": "2.0", "id": 1, "result": "' + b"S" * 2950 + b'"}'
            head = "HTTP/1.1 200 OK\r\nContent-Type: application/json-rpc\r\nContent-Length: %d\r\n\r\n" % len(full)
            conn.sendall(head.encode() + full[:1500])
            s.sleep(1.0)  # let the client read what was sent
            if sym == "big-reset-mid-body":
                conn._ep.peer.reset = True
                s.wake_all(conn._ep.peer.waiters)
            return False
        if sym == "truncated":
            full = body or b'{"jsonrpc": "2.0", "id": 1, "result": "x"}'
            head = "HTTP/1.1 200 OK\r\nContent-Type: application/json-rpc\r\nContent-Length: %d\r\n\r\n" % len(full)
            conn.sendall(head.encode() + full[:max(1, len(full) // 2)])
            return False
        if sym == "empty-200":
            self.send_response(conn, 200, "OK", b"")
            return True
        if sym == "nonjson-200":
            self.send_response(conn, 200, "OK", b"<html>not json</html>")
            return True
        raise core.HarnessError("unknown symbol %r" % sym)
