"""
Seeded search over programs x schedules x faults, shared by every scenario.

  one run      = (VERIF_SEED, check id, run index) -> program, swarm settings,
                 decision strategy; the run is a pure function of these.
  a failure    = a Violation whose class is not listed in known_findings.json;
                 it is minimised, written as a replay file, re-executed in a
                 fresh interpreter and only then reported.
"""

import hashlib
import json
import os
import random
import subprocess
import sys
import time

from . import core

HERE = os.path.dirname(os.path.dirname(os.path.abspath(__file__)))


class Violation(object):
    __slots__ = ("prop", "clause", "sig", "msg")

    def __init__(self, prop, clause, sig, msg):
        self.prop = prop
        self.clause = clause
        self.sig = sig
        self.msg = msg

    @property
    def cls(self):
        return "%s.%s:%s" % (self.prop, self.clause, self.sig)

    def __repr__(self):
        return "Violation(%s | %s)" % (self.cls, self.msg)


def mix(*parts):
    h = hashlib.blake2b(repr(parts).encode(), digest_size=8).digest()
    return int.from_bytes(h, "big")


SWEEP_MAX_STEPS = 450
SWEEP_FLAGGED_MAX_STEPS = 800  # programs generated for a sweep ("sweep": true) are swept in the quick tier too


def pick_strategy(rng):
    """Swarm: one search strategy per run index, drawn from the run's PRNG."""
    k = rng.random()
    if k < 0.40:
        return ["walk", rng.choice([0.2, 0.5, 0.8]), rng.choice([0.3, 0.1, 0.03, 0.01])]
    if k < 0.52:
        return ["walk", rng.choice([0.2, 0.5, 0.8]), 0.0]
    if k < 0.58:
        return ["walk", 0.0, 0.0]
    return ["pct", rng.choice([1, 1, 1, 2, 2, 3]), rng.getrandbits(48)]


def schedules(scn, program, rng):
    """
    Yields (desc, sched, violations, stats) for the one or two executions of
    one run index.  A PCT strategy first runs without change points (which is
    itself a schedule: strict priorities) to measure the number of steps, then
    places its change points uniformly inside that length.
    """
    desc = pick_strategy(rng)
    if program.get("sweep") and desc[0] != "pct":
        desc = ["pct", 1, mix("sweep", rng.getrandbits(48)) & 0xFFFFFFFFFFFF]
    cseed = rng.getrandbits(48)
    pzero = rng.choice([0.3, 0.6, 0.9])

    def chooser():
        return core.RandomChooser(random.Random(cseed), pzero)

    if desc[0] == "walk":
        s, viol, stats = scn.run(program, core.RandomWalk(rng, desc[1], desc[2]), chooser())
        yield desc, s, viol, stats
        return
    _, d, prio_seed = desc
    s, viol, stats = scn.run(program, core.PCT(prio_seed, []), chooser())
    yield ["pct", 0, prio_seed, []], s, viol, stats
    n = max(2, s.step)
    if n <= (SWEEP_FLAGGED_MAX_STEPS if program.get("sweep") else SWEEP_MAX_STEPS) and (program.get("sweep") or (getattr(scn, "tier", "quick") == "thorough" and rng.random() < 0.08)):
        # thorough tier, short run: *every* single pre-emption point under these priorities, not a sample of them
        for k in range(1, min(n, stats.get("sweep_until") or n)):
            s, viol, stats = scn.run(program, core.PCT(prio_seed, [k]), chooser())
            yield ["pct-sweep", 1, prio_seed, [k]], s, viol, stats
        return
    points = sorted(rng.randrange(n) for _ in range(d))
    s, viol, stats = scn.run(program, core.PCT(prio_seed, points), chooser())
    yield ["pct", d, prio_seed, points], s, viol, stats


def one_run(scn, check_id, seed, index):
    """All executions of one run index: [(program, desc, sched, violations, stats), ...]."""
    rs = mix(seed, check_id, index)
    grng = random.Random(rs)
    if hasattr(scn, "program_for"):
        program = scn.program_for(index, grng)
    else:
        program = scn.generate(grng)
    drng = random.Random(rs ^ 0x9E3779B97F4A7C15)
    return [(program,) + r for r in schedules(scn, program, drng)]


def _quiet_stderr():
    """socketserver/http.server print the traceback of a dying connection to sys.stderr: not the check's output."""
    if not os.environ.get("VERIF_KEEP_STDERR"):
        sys.stderr = open(os.devnull, "w")


# ---------------------------------------------------------------------------
# worker side


def _worker(args):
    (scn, check_id, props, seed, wid, nworkers, deadline, max_runs, known) = args
    import faulthandler

    faulthandler.enable()
    _quiet_stderr()
    agg = {
        "runs": 0, "steps": 0, "switches": 0, "simtime": 0.0, "nontrivial": 0,
        "digests": set(), "nt_digests": set(), "programs": set(), "states": set(),
        "faults": {}, "probes": {}, "verdicts": {}, "strategies": {},
        "failures": {}, "known_hits": {}, "harness_errors": [], "samples": [],
        "other_props": {},
    }
    i = wid
    agg["first_index"] = wid
    agg["stride"] = nworkers
    t_end = deadline
    must = getattr(scn, "must_cover", 0)
    while (max_runs is None or i < max_runs):
        if time.time() > t_end and i >= must:
            break
        try:
            execs = one_run(scn, check_id, seed, i)
        except core.HarnessError as ex:
            agg["harness_errors"].append("run %d: %s" % (i, ex))
            if len(agg["harness_errors"]) > 3:
                break
            i += nworkers
            continue
        for program, desc, s, viol, stats in execs:
            _account(agg, i, program, desc, s, viol, stats, props, known)
        i += nworkers
    return agg


def _account(agg, i, program, desc, s, viol, stats, props, known):
    agg["runs"] += 1
    agg["steps"] += stats["steps"]
    agg["switches"] += stats["switches"]
    agg["simtime"] += stats["simtime"]
    agg["cases"] = agg.get("cases", 0) + stats.get("cases", 0)
    dg = s.digest()
    agg["digests"].add(dg)
    ph = hashlib.blake2b(json.dumps(program, sort_keys=True).encode(), digest_size=8).hexdigest()
    agg["programs"].add(ph)
    if stats.get("nontrivial"):
        agg["nontrivial"] += 1
        agg["nt_digests"].add(dg)
    agg["states"].update(stats.get("states") or ())
    for k, n in (stats.get("faults") or {}).items():
        agg["faults"][k] = agg["faults"].get(k, 0) + n
    for k, n in (stats.get("probes") or {}).items():
        agg["probes"][k] = agg["probes"].get(k, 0) + (1 if n else 0)
    vk = stats.get("verdict") or "completed"
    agg["verdicts"][vk] = agg["verdicts"].get(vk, 0) + 1
    sk = "%s-%s" % (desc[0], desc[1]) if desc[0].startswith("pct") else ("walk" if desc[2] else ("walk-sync" if desc[1] else "run-to-block"))
    agg["strategies"][sk] = agg["strategies"].get(sk, 0) + 1
    if len(agg["samples"]) < 2 and stats.get("nontrivial"):
        agg["samples"].append({"run_index": i, "program": program, "strategy": desc,
                               "steps": stats["steps"], "context_switches": stats["switches"],
                               "schedule_digest": dg,
                               "history_head": [list(map(_plain, e)) for e in s.log[:12]]})
    for v in viol:
        if v.prop not in props:
            agg["other_props"][v.cls] = agg["other_props"].get(v.cls, 0) + 1
            continue
        c = v.cls
        if c in known:
            agg["known_hits"][c] = agg["known_hits"].get(c, 0) + 1
            continue
        if c not in agg["failures"] and len(agg["failures"]) < 4:
            agg["failures"][c] = {"index": i, "program": program, "trace": sorted(s.trace.items()),
                                  "net": list(s.net_trace), "msg": v.msg, "digest": dg, "strategy": desc,
                                  "first_index": agg.get("first_index", i), "stride": agg.get("stride", 1)}


def _plain(x):
    if isinstance(x, (str, int, float, bool)) or x is None:
        return x
    if isinstance(x, (list, tuple)):
        return [_plain(y) for y in x]
    return "<%s>" % type(x).__name__


# ---------------------------------------------------------------------------
# shrinking


def _fails(scn, program, decider, cls, net=None):
    try:
        s, viol, stats = scn.run(program, decider, core.TapeChooser(net or []))
    except core.HarnessError:
        return None
    for v in viol:
        if v.cls == cls:
            return s, v
    return None


def shrink(scn, program, trace, cls, budget=2500, tries=40, net=None):
    """Two-phase minimisation keeping the violation class fixed."""
    used = [0]
    trace = dict(trace)
    budget = getattr(scn, "shrink_budget", budget)
    tries = getattr(scn, "shrink_tries", tries)
    t_end = time.time() + float(os.environ.get("VERIF_SHRINK_S", "45"))
    r = _fails(scn, program, core.TapeDecider(trace), cls, net)
    if r is None:
        return None
    best_prog, best_trace, best_s, best_v = program, dict(r[0].trace), r[0], r[1]

    def attempt(cand):
        # the old tapes first, then fresh schedules
        used[0] += 1
        r = _fails(scn, cand, core.TapeDecider(best_trace), cls, best_s.net_trace)
        if r is not None:
            return r
        if best_s.net_trace:
            used[0] += 1
            r = _fails(scn, cand, core.TapeDecider(best_trace), cls, None)
            if r is not None:
                return r
        for k in range(tries):
            if used[0] >= budget or time.time() > t_end:
                return None
            rng = random.Random(mix(cls, k, used[0]))
            try:
                for desc, s, viol, stats in schedules(scn, cand, rng):
                    used[0] += 1
                    for v in viol:
                        if v.cls == cls:
                            return s, v
            except core.HarnessError:
                pass
        return None

    improved = True
    while improved and used[0] < budget and time.time() < t_end:
        improved = False
        for cand in scn.shrink_candidates(best_prog):
            if used[0] >= budget or time.time() > t_end:
                break
            r = attempt(cand)
            if r is not None:
                best_prog, best_trace, best_s, best_v = cand, dict(r[0].trace), r[0], r[1]
                improved = True
                break
    # phase 2: the tape (fewer context switches)
    items = sorted(best_trace.items())
    n = 2
    while len(items) >= 1 and used[0] < budget + 600 and time.time() < t_end + 15:
        chunk = max(1, len(items) // n)
        removed = False
        for start in range(0, len(items), chunk):
            cand = items[:start] + items[start + chunk:]
            used[0] += 1
            r = _fails(scn, best_prog, core.TapeDecider(dict(cand)), cls, best_s.net_trace)
            if r is not None:
                items = sorted(r[0].trace.items())
                best_trace, best_s, best_v = dict(items), r[0], r[1]
                removed = True
                n = max(n - 1, 2)
                break
        if not removed:
            if chunk == 1:
                break
            n = min(n * 2, len(items))
    # phase 3: network / fault choices back to the benign alternative (0)
    nt = list(best_s.net_trace)
    if any(nt) and used[0] < budget + 900:
        used[0] += 1
        r = _fails(scn, best_prog, core.TapeDecider(best_trace), cls, [0] * len(nt))
        if r is not None:
            best_trace, best_s, best_v = dict(r[0].trace), r[0], r[1]
        else:
            for i in range(len(nt)):
                if used[0] >= budget + 900 or time.time() > t_end + 25:
                    break
                if i < len(nt) and nt[i]:
                    cand = list(nt)
                    cand[i] = 0
                    used[0] += 1
                    r = _fails(scn, best_prog, core.TapeDecider(best_trace), cls, cand)
                    if r is not None:
                        nt = list(r[0].net_trace)
                        best_trace, best_s, best_v = dict(r[0].trace), r[0], r[1]
    return best_prog, best_trace, best_s, best_v, used[0]


# ---------------------------------------------------------------------------
# known findings


def load_known():
    path = os.path.join(HERE, "known_findings.json")
    known = {}
    fixed = {}
    if os.path.exists(path):
        with open(path) as fh:
            data = json.load(fh)
        for e in data.get("findings", []):
            if e.get("status") == "known":
                known[e["class"]] = e
            elif e.get("status") == "fixed":
                fixed[e["class"]] = e
    return known, fixed


# ---------------------------------------------------------------------------
# replay files


def write_replay(scn_name, check_id, prop, cls, msg, program, trace, digest, seed, index, extra=None):
    from . import env

    d = os.path.join(HERE, "replays")
    os.makedirs(d, exist_ok=True)
    body = {
        "format": 1, "scenario": scn_name, "check": check_id, "property": prop, "class": cls, "message": msg,
        "program": program, "tape": sorted([int(k), int(v)] for k, v in trace.items()),
        "net_tape": list(extra.pop("net_tape", [])) if extra else [],
        "expected_digest": digest, "verif_seed": seed, "run_index": index, "tree": env.tree_id(),
    }
    if extra:
        body.update(extra)
    tag = hashlib.blake2b(json.dumps([cls, program, body["tape"]], sort_keys=True).encode(), digest_size=5).hexdigest()
    path = os.path.join(d, "%s-%s.json" % (prop, tag))
    with open(path, "w") as fh:
        # key order is part of the program (e.g. the order of keyword arguments): never sort
        json.dump(body, fh, indent=1)
        fh.write("\n")
    return path


def replay_file(path, scenarios):
    """Re-executes a replay file; returns (reproduced, text)."""
    with open(path) as fh:
        body = json.load(fh)
    if body.get("format") == 2:
        ok, digest, msg = run_history(body["check"], body.get("tier", "quick"), body["verif_seed"], body["history"], body["class"])
        text = "replay %s (history of %d runs): class=%s reproduced=%s digest=%s expected=%s" % (
            os.path.basename(path), len(body["history"]), body["class"], ok, digest, body["expected_digest"])
        if msg:
            text += "\n  " + msg
        return bool(ok) and digest == body["expected_digest"], text, None, []
    scn = scenarios[body["scenario"]](body)
    s, viol, stats = scn.run(body["program"], core.TapeDecider(dict((k, v) for k, v in body["tape"])),
                             core.TapeChooser(body.get("net_tape") or []))
    got = [v for v in viol if v.cls == body["class"]]
    lines = []
    ok = bool(got) and s.digest() == body["expected_digest"]
    lines.append("replay %s: class=%s reproduced=%s digest=%s expected=%s" % (
        os.path.basename(path), body["class"], bool(got), s.digest(), body["expected_digest"]))
    for v in got[:1]:
        lines.append("  " + v.msg)
    return ok, "\n".join(lines), s, viol


def verify_replay_fresh(path):
    """Runs ./check replay <file> in a fresh interpreter under another hash seed."""
    env_ = dict(os.environ)
    env_["PYTHONHASHSEED"] = "12345"
    env_["VERIF_NO_REEXEC"] = "1"
    p = subprocess.run([sys.executable, os.path.join(HERE, "check"), "replay", path],
                       env=env_, stdout=subprocess.PIPE, stderr=subprocess.STDOUT, timeout=300)
    return p.returncode == 1, p.stdout.decode("utf-8", "replace")


# ---------------------------------------------------------------------------
# history replays: a violation that depends on what the same process ran before
# (code under test keeping state in a module or class attribute)


def run_history(check_id, tier, seed, indices, cls):
    """Runs the given run indices in order in this process; returns (class seen in the last one, digest)."""
    from . import props

    scn = props.make_scenario(check_id, tier)
    _quiet_stderr()
    last = None
    for idx in indices:
        last = one_run(scn, check_id, seed, idx)
    for program, desc, s, viol, stats in last or []:
        if any(v.cls == cls for v in viol):
            return True, s.digest(), [v.msg for v in viol if v.cls == cls][0]
    return False, None, None


def _history_subprocess(check_id, tier, seed, indices, cls):
    env_ = dict(os.environ)
    env_["PYTHONHASHSEED"] = "0"
    env_["VERIF_NO_REEXEC"] = "1"
    p = subprocess.run([sys.executable, os.path.join(HERE, "check"), "_history", check_id, tier, str(seed), cls, json.dumps(indices)],
                       env=env_, stdout=subprocess.PIPE, stderr=subprocess.DEVNULL, timeout=600)
    try:
        out = json.loads(p.stdout.decode().strip().splitlines()[-1])
    except Exception:
        return False, None, None
    return tuple(out)


def history_violation(scn_name, check_id, prop, tier, seed, f, cls):
    """
    The failing run did not replay on its own: try it together with the runs the same worker process executed
    before it, in a fresh interpreter, and minimise that history.  Returns a replay file path or None.
    """
    indices = list(range(f["first_index"], f["index"] + 1, f["stride"]))
    ok, digest, msg = _history_subprocess(check_id, tier, seed, indices, cls)
    if not ok:
        return None, None
    t_end = time.time() + float(os.environ.get("VERIF_SHRINK_S", "45")) * 2
    prefix = indices[:-1]
    n = 2
    while prefix and time.time() < t_end:
        chunk = max(1, len(prefix) // n)
        removed = False
        for start in range(0, len(prefix), chunk):
            cand = prefix[:start] + prefix[start + chunk:]
            ok2, d2, m2 = _history_subprocess(check_id, tier, seed, cand + [indices[-1]], cls)
            if ok2:
                prefix, digest, msg = cand, d2, m2
                removed = True
                n = max(n - 1, 2)
                break
            if time.time() > t_end:
                break
        if not removed:
            if chunk == 1:
                break
            n = min(n * 2, len(prefix))
    from . import env

    d = os.path.join(HERE, "replays")
    os.makedirs(d, exist_ok=True)
    body = {"format": 2, "scenario": scn_name, "check": check_id, "property": prop, "class": cls, "message": msg, "tier": tier,
            "history": prefix + [indices[-1]], "expected_digest": digest, "verif_seed": seed, "run_index": indices[-1],
            "tree": env.tree_id(),
            "note": "the violation depends on state the code under test keeps between the runs of one process: the replay executes these run indices in order in a fresh interpreter"}
    tag = hashlib.blake2b(json.dumps([cls, body["history"], seed]).encode(), digest_size=5).hexdigest()
    path = os.path.join(d, "%s-%s.json" % (prop, tag))
    with open(path, "w") as fh:
        json.dump(body, fh, indent=1)
        fh.write("\n")
    return path, msg


# ---------------------------------------------------------------------------
# the check driver


def run_check(scn_factory, scn_name, check_id, prop, tier, seed, budget_s, jobs, level, rule, assumptions,
              real_components, stub_components, required_probes=(), max_runs=None, extra_cov=None):
    from concurrent.futures import ProcessPoolExecutor
    import multiprocessing

    t0 = time.time()
    known, fixed = load_known()
    scn = scn_factory()
    if getattr(scn, "tier", None) is None:
        scn.tier = tier
    real_stderr = sys.stderr
    deadline = t0 + budget_s
    ctx = multiprocessing.get_context("fork")
    args = [(scn, check_id, (prop,), seed, w, jobs, deadline, max_runs, set(known)) for w in range(jobs)]
    results = []
    with ProcessPoolExecutor(max_workers=jobs, mp_context=ctx) as ex:
        futs = [ex.submit(_worker, a) for a in args]
        for f in futs:
            try:
                results.append(f.result(timeout=budget_s + 300))
            except Exception as e:  # a dead worker is a harness failure, never exit 0
                print("HARNESS-ERROR property=%s worker failed: %r" % (prop, e))
                return 2
    tot = {"runs": 0, "steps": 0, "switches": 0, "simtime": 0.0, "nontrivial": 0, "cases": 0}
    digests, nt, programs, states = set(), set(), set(), set()
    faults, probes, verdicts, strategies, failures, known_hits, other = {}, {}, {}, {}, {}, {}, {}
    herr = []
    samples = []
    for a in results:
        for k in tot:
            tot[k] += a.get(k, 0)
        digests |= a["digests"]
        nt |= a["nt_digests"]
        programs |= a["programs"]
        states |= a["states"]
        for name, dst in (("faults", faults), ("probes", probes), ("verdicts", verdicts),
                          ("strategies", strategies), ("known_hits", known_hits), ("other_props", other)):
            for k, n in a[name].items():
                dst[k] = dst.get(k, 0) + n
        for c, f in a["failures"].items():
            if c not in failures or f["index"] < failures[c]["index"]:
                failures[c] = f
        herr.extend(a["harness_errors"])
        samples.extend(a["samples"])
    search_wall = time.time() - t0
    rc = 0
    out_lines = []
    for c in sorted(known_hits):
        e = known[c]
        out_lines.append("KNOWN-FINDING: property=%s %s [%s] (hit in %d runs)" % (prop, e.get("what", ""), c, known_hits[c]))
    nviol = 0
    replay_paths = []
    if failures:
        _quiet_stderr()
    for c in sorted(failures):
        f = failures[c]
        sh = shrink(scn, f["program"], dict(f["trace"]), c, net=f.get("net"))
        if sh is None:
            hpath, hmsg = history_violation(scn_name, check_id, prop, tier, seed, f, c)
            if hpath is not None:
                ok, text = verify_replay_fresh(hpath)
                if ok:
                    nviol += 1
                    replay_paths.append(hpath)
                    out_lines.append("VIOLATION property=%s replay=%s" % (prop, hpath))
                    out_lines.append("  class: %s" % c)
                    out_lines.append("  what : %s" % hmsg)
                    out_lines.append("  note : reproduces only after other runs in the same process (state kept by the code under test between runs); "
                                     "the replay file lists the run indices to execute in order")
                    continue
            out_lines.append("HARNESS-ERROR property=%s class=%s found in run %d but did not replay, neither alone nor with the history of its worker process" % (prop, c, f["index"]))
            rc = max(rc, 2)
            continue
        prog, trace, s, v, used = sh
        path = write_replay(scn_name, check_id, prop, c, v.msg, prog, trace, s.digest(), seed, f["index"],
                            {"shrink_runs": used, "found_with_strategy": f["strategy"], "scenario_args": getattr(scn, "args", None),
                             "net_tape": list(s.net_trace)})
        ok, text = verify_replay_fresh(path)
        if not ok:
            hpath, hmsg = history_violation(scn_name, check_id, prop, tier, seed, f, c)
            if hpath is not None and verify_replay_fresh(hpath)[0]:
                nviol += 1
                replay_paths.append(hpath)
                out_lines.append("VIOLATION property=%s replay=%s" % (prop, hpath))
                out_lines.append("  class: %s" % c)
                out_lines.append("  what : %s" % hmsg)
                out_lines.append("  note : reproduces only after other runs in the same process (state kept by the code under test between runs); "
                                 "the replay file lists the run indices to execute in order")
                continue
            out_lines.append("HARNESS-ERROR property=%s class=%s replay file %s did not reproduce in a fresh interpreter:\n%s" % (prop, c, path, text))
            rc = max(rc, 2)
            continue
        nviol += 1
        replay_paths.append(path)
        out_lines.append("VIOLATION property=%s replay=%s" % (prop, path))
        out_lines.append("  class: %s" % c)
        out_lines.append("  what : %s" % v.msg)
        out_lines.append("  minimised program: %s" % json.dumps(prog))
        out_lines.append("  context switches in minimised schedule: %d (found in run %d, %d shrink runs)" % (len(trace), f["index"], used))
        if c in fixed:
            out_lines.append("  note: this class is recorded as FIXED in known_findings.json (%s) - it has returned" % fixed[c].get("commit"))
    sys.stderr = real_stderr
    if nviol:
        rc = 1 if rc != 2 else 2
    for e in herr[:5]:
        out_lines.append("HARNESS-ERROR property=%s %s" % (prop, e))
    if herr:
        rc = 2 if rc == 0 else rc
    missing = [p for p in required_probes if not probes.get(p)]
    if missing and rc == 0:
        out_lines.append("HARNESS-ERROR property=%s probes never hit: %s (the workload did not reach what the check claims)" % (prop, missing))
        rc = 2
    wall = time.time() - t0
    cov = {
        "evaluations": tot["runs"],
        "distinct_nontrivial": len(nt),
        "rule": rule,
        "samples": samples[:3] or [{"note": "no non-trivial run"}],
        "distinct_programs": len(programs),
        "distinct_schedule_digests": len(digests),
        "distinct_abstract_states": len(states),
        "scheduler_steps": tot["steps"],
        "individual_cases_judged": tot["cases"],
        "context_switches": tot["switches"],
        "simulated_seconds": tot["simtime"],
        "runs_per_hour": int(tot["runs"] / max(search_wall, 1e-6) * 3600),
        "seeds": "VERIF_SEED=%d, run indices 0..%d interleaved over %d processes" % (seed, max(0, tot["runs"] - 1), jobs),
        "fault_kinds_fired": faults,
        "probes_hit_in_runs": probes,
        "run_end_kinds": verdicts,
        "search_strategies": strategies,
        "known_finding_hits": known_hits,
        "violations_of_other_properties_seen": other,
        "components_real": real_components,
        "components_stubbed": stub_components,
        "exhaustive": bool(getattr(scn, "must_cover", 0)) and tot["runs"] >= getattr(scn, "must_cover", 0),
        "enumerated_cases": getattr(scn, "must_cover", 0),
        "replays": [os.path.relpath(p, HERE) for p in replay_paths],
    }
    if extra_cov:
        cov.update(extra_cov)
    evidence = {
        "property_id": prop, "tier": tier, "seed": seed, "level": level, "coverage": cov,
        "assumptions": assumptions, "wall_s": round(wall, 2), "violations": nviol,
    }
    evdir = os.environ.get("VERIF_EVIDENCE_DIR") or os.path.join(HERE, "evidence")
    os.makedirs(evdir, exist_ok=True)
    with open(os.path.join(evdir, "%s.json" % prop), "w") as fh:
        json.dump(evidence, fh, indent=1, sort_keys=True, default=_plain)
        fh.write("\n")
    print("property=%s tier=%s seed=%d runs=%d distinct-schedules=%d nontrivial=%d states=%d steps=%d wall=%.1fs" % (
        prop, tier, seed, tot["runs"], len(digests), len(nt), len(states), tot["steps"], wall))
    for line in out_lines:
        print(line)
    if rc == 0:
        print("OK property=%s held on everything explored" % prop)
    return rc


class MultiScenario(object):
    """Several scenario families behind one check; a program records which family it belongs to."""

    def __init__(self, name, parts):
        self.name = name
        self.parts = parts  # [(weight, key, scenario)]
        self.by_key = dict((k, s) for _, k, s in parts)
        self.args = None

    def generate(self, rng):
        total = sum(w for w, _, _ in self.parts)
        x = rng.random() * total
        for w, k, s in self.parts:
            x -= w
            if x <= 0:
                break
        return {"part": k, "p": s.generate(rng)}

    def run(self, program, decider, chooser=None):
        s, viol, stats = self.by_key[program["part"]].run(program["p"], decider, chooser)
        stats = dict(stats)
        pr = dict(stats.get("probes") or {})
        pr["family_" + program["part"]] = 1
        stats["probes"] = pr
        stats["states"] = set((program["part"],) + (x if isinstance(x, tuple) else (x,)) for x in (stats.get("states") or ()))
        return s, viol, stats

    def shrink_candidates(self, program):
        for q in self.by_key[program["part"]].shrink_candidates(program["p"]):
            yield {"part": program["part"], "p": q}
